#!/bin/bash
# verify_seed.sh <id> <worktree> <test-filter>: confirms a seeded change in its scratch worktree:
#  demo fails with the change, passes without it, and the crate's existing tests still pass with it.
ID=$1; WT=$2; FILTER=${3:-seeded_demo}; CRATE=${4:-ic-btc-canister}
cd $WT || exit 2
OUT=/verif/seeded/$ID/verify.log
echo "== verify $ID in $WT ($(date))" > $OUT
run() { timeout 3000 cargo test -p $CRATE --offline --lib "$@" -- --test-threads 8 2>&1 | grep -E "^test |test result|error(\[|:)" ; }
echo "-- demo with change (expect FAILED)" >> $OUT
run $FILTER | grep -E "$FILTER|test result" >> $OUT
git apply -R _seed/patch.diff || { echo "cannot revert patch" >> $OUT; exit 2; }
echo "-- demo without change (expect ok)" >> $OUT
run $FILTER | grep -E "$FILTER|test result" >> $OUT
git apply _seed/patch.diff || { echo "cannot re-apply patch" >> $OUT; exit 2; }
echo "-- whole suite with change (expect only the known data-file tests and the demo to fail)" >> $OUT
run | grep -E "FAILED|failed|test result" >> $OUT
echo "== done" >> $OUT
