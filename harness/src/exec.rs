//! Scenario execution: drives the real canister through its public entry points and records
//! one ndjson event per message with the projected post-state / the answer.
use crate::concrete::{AddrSpec, BlockSpec, TxSpec, Universe};
use bitcoin::hashes::Hash;
use ic_btc_canister::runtime::verif_hooks as rt;
use ic_btc_canister::runtime::{set_successors_responses, GetSuccessorsReply};
use ic_btc_canister::types::{
    BlockHeaderBlob, GetSuccessorsCompleteResponse, GetSuccessorsPartialResponse,
    GetSuccessorsRequest, GetSuccessorsResponse,
};
use ic_btc_canister::{state, with_state, with_state_mut};
use ic_btc_interface::{
    Flag, GetBalanceRequest, GetBlockHeadersRequest, GetCurrentFeePercentilesRequest,
    GetUtxosRequest, InitConfig, Network, NetworkInRequest, SetConfigRequest,
    UtxosFilterInRequest,
};
use serde::Deserialize;
use serde_json::{json, Value};
use std::cell::RefCell;

const METRIC_NAMES: &[&str] = &[
    "main_chain_height", "stable_height", "utxos_length", "address_utxos_length", "anchor_difficulty",
    "stability_threshold", "normalized_stability_threshold", "testnet_unstable_max_depth_difference",
    "unstable_blocks_num_tips", "unstable_blocks_total", "unstable_blocks_depth", "unstable_blocks_difficulty_based_depth",
    "num_get_successors_rejects", "num_block_deserialize_errors", "num_insert_block_errors", "send_transaction_count",
    "is_synced", "api_access_flag_enabled", "api_access_flag_disabled",
    "get_successors_request_count_type_total", "get_successors_request_count_type_initial", "get_successors_request_count_type_follow_up",
    "get_successors_response_count_type_total", "get_successors_response_count_type_complete",
    "get_successors_response_count_type_partial", "get_successors_response_count_type_follow_up",
    "get_successors_response_block_count_type_total", "get_successors_response_block_count_type_complete",
    "get_successors_response_block_count_type_partial", "get_successors_response_block_count_type_follow_up",
];
use std::collections::BTreeMap;
use std::future::Future;
use std::panic::{catch_unwind, AssertUnwindSafe};
use std::pin::Pin;
use std::task::{Context, Poll, RawWaker, RawWakerVTable, Waker};

thread_local! {
    static LAST_PANIC: RefCell<String> = const { RefCell::new(String::new()) };
}

pub fn install_panic_hook() {
    std::panic::set_hook(Box::new(|info| {
        let msg = if let Some(s) = info.payload().downcast_ref::<&str>() {
            s.to_string()
        } else if let Some(s) = info.payload().downcast_ref::<String>() {
            s.clone()
        } else {
            "<non-string panic>".to_string()
        };
        let loc = info
            .location()
            .map(|l| format!(" @{}:{}", l.file(), l.line()))
            .unwrap_or_default();
        LAST_PANIC.with(|p| *p.borrow_mut() = format!("{msg}{loc}"));
    }));
}

pub fn last_panic() -> String {
    LAST_PANIC.with(|p| p.borrow().clone())
}

fn noop_waker() -> Waker {
    fn clone(_: *const ()) -> RawWaker {
        RawWaker::new(std::ptr::null(), &VTABLE)
    }
    fn noop(_: *const ()) {}
    static VTABLE: RawWakerVTable = RawWakerVTable::new(clone, noop, noop, noop);
    unsafe { Waker::from_raw(RawWaker::new(std::ptr::null(), &VTABLE)) }
}

pub fn poll_once<F: Future + ?Sized>(fut: Pin<&mut F>) -> Poll<F::Output> {
    let waker = noop_waker();
    let mut cx = Context::from_waker(&waker);
    fut.poll(&mut cx)
}

pub fn block_on<F: Future>(fut: F) -> F::Output {
    let mut fut = Box::pin(fut);
    loop {
        if let Poll::Ready(v) = poll_once(fut.as_mut()) {
            return v;
        }
    }
}

#[derive(Deserialize, Clone, Debug)]
pub struct ScenarioConfig {
    pub net: String,
    pub thr: u32,
    #[serde(default = "yes")]
    pub api: bool,
    #[serde(default = "yes")]
    pub syncing: bool,
    #[serde(default = "yes")]
    pub gate: bool,
    #[serde(default)]
    pub lazy: bool,
    /// burn_cycles: every heartbeat burns the canister's balance (1_000_000 cycles in the native runtime)
    #[serde(default)]
    pub burn: bool,
    #[serde(default)]
    pub seed: u64,
    /// include the bookkeeping snapshot (C20) in every post-state
    #[serde(default = "yes")]
    pub book: bool,
    /// fee table (short keys, see `fees_from_json`); absent = all zero
    #[serde(default)]
    pub fees: Value,
}
fn yes() -> bool {
    true
}

#[derive(Deserialize, Clone, Debug)]
pub struct Scenario {
    #[serde(default)]
    pub name: String,
    pub config: ScenarioConfig,
    #[serde(default)]
    pub addrs: Vec<AddrSpec>,
    #[serde(default)]
    pub txs: Vec<TxSpec>,
    #[serde(default)]
    pub blocks: Vec<BlockSpec>,
    pub cmds: Vec<Value>,
}

pub fn parse_network(s: &str) -> Network {
    match s {
        "mainnet" => Network::Mainnet,
        "testnet" => Network::Testnet,
        "regtest" => Network::Regtest,
        other => panic!("bad network {other}"),
    }
}

fn net_in_request(s: &str) -> NetworkInRequest {
    match s {
        "mainnet" => NetworkInRequest::mainnet,
        "Mainnet" => NetworkInRequest::Mainnet,
        "testnet" => NetworkInRequest::testnet,
        "Testnet" => NetworkInRequest::Testnet,
        "regtest" => NetworkInRequest::regtest,
        "Regtest" => NetworkInRequest::Regtest,
        other => panic!("bad network {other}"),
    }
}

const FEE_KEYS: [&str; 12] = ["ub", "ur", "um", "bal", "balm", "pct", "pctm", "hb", "hr", "hm", "sb", "sp"];

pub fn fees_from_json(v: &Value) -> ic_btc_interface::Fees {
    let g = |k: &str| v.get(k).and_then(|x| x.as_u64()).unwrap_or(0) as u128;
    ic_btc_interface::Fees {
        get_utxos_base: g("ub"),
        get_utxos_cycles_per_ten_instructions: g("ur"),
        get_utxos_maximum: g("um"),
        get_balance: g("bal"),
        get_balance_maximum: g("balm"),
        get_current_fee_percentiles: g("pct"),
        get_current_fee_percentiles_maximum: g("pctm"),
        get_block_headers_base: g("hb"),
        get_block_headers_cycles_per_ten_instructions: g("hr"),
        get_block_headers_maximum: g("hm"),
        send_transaction_base: g("sb"),
        send_transaction_per_byte: g("sp"),
    }
}

pub fn fees_to_json(f: &ic_btc_interface::Fees) -> Value {
    let c = |x: u128| -> Value {
        if x < (1u128 << 31) {
            json!(x as u64)
        } else {
            json!(x.to_string())
        }
    };
    json!({
        "ub": c(f.get_utxos_base), "ur": c(f.get_utxos_cycles_per_ten_instructions), "um": c(f.get_utxos_maximum),
        "bal": c(f.get_balance), "balm": c(f.get_balance_maximum),
        "pct": c(f.get_current_fee_percentiles), "pctm": c(f.get_current_fee_percentiles_maximum),
        "hb": c(f.get_block_headers_base), "hr": c(f.get_block_headers_cycles_per_ten_instructions), "hm": c(f.get_block_headers_maximum),
        "sb": c(f.send_transaction_base), "sp": c(f.send_transaction_per_byte),
    })
}

fn flag(b: bool) -> Flag {
    if b {
        Flag::Enabled
    } else {
        Flag::Disabled
    }
}

type HbFuture = Pin<Box<dyn Future<Output = ()>>>;

struct PendingHb {
    fut: HbFuture,
    ticket: u64,
    request: GetSuccessorsRequest,
}

struct Walk {
    addr: String,
    net: String,
    limit: usize,
    token: Option<Vec<u8>>,
}

pub struct Exec {
    pub uni: Universe,
    pub cfg: ScenarioConfig,
    now: i64,
    pending: BTreeMap<u64, PendingHb>,
    walks: BTreeMap<u64, Walk>,
    // chunks of the block that is currently being delivered in pages
    partial_chunks: Vec<Vec<u8>>,
    partial_item: Value,
    // labels of the blobs handed to the canister
    block_labels: BTreeMap<Vec<u8>, Value>,
    header_labels: BTreeMap<Vec<u8>, Value>,
    pub events: Vec<Value>,
    dead: bool,
    // replies queued by `offer` commands, used by initial requests whose command names none
    offers: std::collections::VecDeque<Value>,
}

const BIG: u64 = 1_000_000_000;

impl Exec {
    pub fn new(sc: &Scenario) -> Self {
        let network = parse_network(&sc.config.net);
        ic_btc_types::verif_hooks::clear_mock_difficulties();
        let mut uni = Universe::new(network, sc.config.seed);
        for a in &sc.addrs {
            uni.add_addr(a);
        }
        for t in &sc.txs {
            uni.add_tx(t);
        }
        // genesis difficulty (block 1) may be overridden by the scenario
        let mut genesis_diff = 1u128;
        for b in &sc.blocks {
            if b.id == 1 {
                genesis_diff = b.diff;
                uni.block_specs.get_mut(&1).unwrap().diff = b.diff;
            } else {
                uni.add_block(b);
            }
        }
        let ghash = uni.blocks[&1].block_hash();
        ic_btc_types::verif_hooks::set_mock_difficulty(ic_btc_types::BlockHash::from(ghash), genesis_diff);

        // fresh canister
        ic_btc_canister::memory::set_memory(Default::default());
        rt::set_performance_counter(0);
        rt::set_performance_counter_step(0);
        rt::set_pending_mode(true);
        rt::take_requests();
        rt::take_sent_transactions();
        rt::reset_cycles_accepted();
        rt::set_cycles_available(None);
        set_successors_responses(vec![]);
        let e = Exec {
            uni,
            cfg: sc.config.clone(),
            now: 0,
            pending: BTreeMap::new(),
            walks: BTreeMap::new(),
            partial_chunks: vec![],
            partial_item: json!({}),
            block_labels: BTreeMap::new(),
            header_labels: BTreeMap::new(),
            events: vec![],
            dead: false,
            offers: Default::default(),
        };
        e.set_time();
        ic_btc_canister::init(InitConfig {
            stability_threshold: Some(sc.config.thr as u128),
            network: Some(network),
            api_access: Some(flag(sc.config.api)),
            syncing: Some(flag(sc.config.syncing)),
            disable_api_if_not_fully_synced: Some(flag(sc.config.gate)),
            lazily_evaluate_fee_percentiles: Some(flag(sc.config.lazy)),
            burn_cycles: Some(flag(sc.config.burn)),
            fees: Some(fees_from_json(&sc.config.fees)),
            ..Default::default()
        });
        let _ = FEE_KEYS;
        e
    }

    fn set_time(&self) {
        let t = self.uni.genesis_time as i64 + self.now;
        ic_btc_canister::runtime::mock_time::set_mock_time_secs(t as u64);
    }

    pub fn header_event(&self) -> Value {
        // the complete universe, as the arrays of the specification's `uni` record
        let nb = *self.uni.block_specs.keys().max().unwrap();
        let nt = *self.uni.tx_specs.keys().max().unwrap();
        let mut par = vec![];
        let mut diff = vec![];
        let mut time = vec![];
        let mut btx = vec![];
        let mut hs: Vec<u64> = vec![];
        for b in 1..=nb {
            let s = self.uni.block_specs.get(&b).unwrap_or_else(|| panic!("block ids must be contiguous, missing {b}"));
            par.push(json!(s.parent));
            diff.push(json!(s.diff as u64));
            time.push(json!(s.time));
            btx.push(json!(s.txs));
            // heights (parents have smaller ids); redundant with `par`, checked by the specification
            hs.push(if s.parent == 0 || s.parent > hs.len() { 0 } else { hs[s.parent - 1] + 1 });
        }
        let mut tin = vec![];
        let mut tout = vec![];
        let mut vsz = vec![];
        for t in 1..=nt {
            let s = self.uni.tx_specs.get(&t).unwrap_or_else(|| panic!("tx ids must be contiguous, missing {t}"));
            tin.push(json!(s.ins.iter().map(|(a, b)| json!([a, b])).collect::<Vec<_>>()));
            tout.push(json!(s.outs.iter().map(|o| json!({"a": o.a, "v": o.v})).collect::<Vec<_>>()));
            vsz.push(json!(self.uni.txs[&t].vsize()));
        }
        json!({
            "ev": "universe",
            "cfg": {"net": self.cfg.net, "thr": self.cfg.thr, "api": self.cfg.api, "syncing": self.cfg.syncing,
                    "gate": self.cfg.gate, "lazy": self.cfg.lazy, "burn": self.cfg.burn,
                    "fees": fees_to_json(&fees_from_json(&self.cfg.fees))},
            "book": self.cfg.book,
            "naddr": self.uni.addr_strings.len(),
            "uni": {"par": par, "diff": diff, "time": time, "btx": btx, "tin": tin, "tout": tout, "vsz": vsz, "h": hs},
        })
    }

    // ------------------------------------------------------------------ items and replies

    fn item_of(v: &Value) -> (usize, String) {
        (
            v["b"].as_u64().unwrap() as usize,
            v["as"].as_str().unwrap_or("valid").to_string(),
        )
    }

    fn block_blob(&mut self, item: &Value) -> Vec<u8> {
        let (b, class) = Self::item_of(item);
        let bytes = self.uni.defective_block(b, &class);
        self.block_labels.insert(bytes.clone(), json!({"b": b, "as": class}));
        bytes
    }

    fn header_blob(&mut self, item: &Value) -> BlockHeaderBlob {
        let (b, class) = Self::item_of(item);
        let bytes = self.uni.defective_header(b, &class);
        self.header_labels.insert(bytes.clone(), json!({"b": b, "as": class}));
        // BlockHeaderBlob::from asserts a length of 80; go through serde to build any length
        serde_json::from_value(json!(bytes)).expect("header blob")
    }

    fn norm_items(v: &Value) -> Value {
        json!(v
            .as_array()
            .map(|a| a
                .iter()
                .map(|i| {
                    let (b, c) = Self::item_of(i);
                    json!({"b": b, "as": c})
                })
                .collect::<Vec<_>>())
            .unwrap_or_default())
    }

    /// Builds the reply for `request` according to the policy; returns (reply, logged form).
    fn build_reply(&mut self, request: &GetSuccessorsRequest, policy: &Value) -> (GetSuccessorsReply, Value) {
        let reject = || {
            GetSuccessorsReply::Err(ic_cdk::call::RejectCode::CanisterReject, "rejected by the block source".to_string())
        };
        match request {
            GetSuccessorsRequest::Initial(_) => {
                let queued;
                let spec = if policy.get("initial").is_some() {
                    &policy["initial"]
                } else {
                    queued = self.offers.pop_front().unwrap_or(json!({"k": "empty"}));
                    &queued
                };
                match spec["k"].as_str().unwrap_or("empty") {
                    "reject" => (reject(), json!({"k": "reject"})),
                    "empty" => (
                        GetSuccessorsReply::Ok(GetSuccessorsResponse::Complete(GetSuccessorsCompleteResponse {
                            blocks: vec![],
                            next: vec![],
                        })),
                        json!({"k": "complete", "blocks": [], "next": []}),
                    ),
                    "complete" => {
                        let blocks: Vec<Vec<u8>> = spec["blocks"]
                            .as_array()
                            .cloned()
                            .unwrap_or_default()
                            .iter()
                            .map(|i| self.block_blob(i))
                            .collect();
                        let next: Vec<BlockHeaderBlob> = spec["next"]
                            .as_array()
                            .cloned()
                            .unwrap_or_default()
                            .iter()
                            .map(|i| self.header_blob(i))
                            .collect();
                        (
                            GetSuccessorsReply::Ok(GetSuccessorsResponse::Complete(GetSuccessorsCompleteResponse {
                                blocks,
                                next,
                            })),
                            json!({"k": "complete", "blocks": Self::norm_items(&spec["blocks"]), "next": Self::norm_items(&spec["next"])}),
                        )
                    }
                    "partial" => {
                        let item = spec["item"].clone();
                        let bytes = self.block_blob(&item);
                        let n = spec["pages"].as_u64().unwrap_or(1) as usize;
                        // split into n + 1 chunks at deterministic positions
                        let mut cuts: Vec<usize> = (1..=n).map(|i| bytes.len() * i / (n + 1)).collect();
                        if let Some(c) = spec["cuts"].as_array() {
                            cuts = c.iter().map(|x| (x.as_u64().unwrap() as usize).min(bytes.len())).collect();
                            cuts.sort();
                        }
                        let mut chunks = vec![];
                        let mut start = 0;
                        for c in cuts.iter() {
                            chunks.push(bytes[start..*c].to_vec());
                            start = *c;
                        }
                        chunks.push(bytes[start..].to_vec());
                        let first = chunks[0].clone();
                        self.partial_chunks = chunks;
                        let (b, class) = Self::item_of(&item);
                        self.partial_item = json!({"b": b, "as": class});
                        let next: Vec<BlockHeaderBlob> = spec["next"]
                            .as_array()
                            .cloned()
                            .unwrap_or_default()
                            .iter()
                            .map(|i| self.header_blob(i))
                            .collect();
                        (
                            GetSuccessorsReply::Ok(GetSuccessorsResponse::Partial(GetSuccessorsPartialResponse {
                                partial_block: first,
                                next,
                                remaining_follow_ups: n as u8,
                            })),
                            json!({"k": "partial", "item": self.partial_item, "n": n, "next": Self::norm_items(&spec["next"])}),
                        )
                    }
                    other => panic!("bad initial reply kind {other}"),
                }
            }
            GetSuccessorsRequest::FollowUp(k) => {
                let k = *k as usize;
                let want_data = policy["followup"].as_str().unwrap_or("data") == "data";
                // the source answers follow-up k with data iff page k + 1 exists
                if want_data && k + 1 < self.partial_chunks.len() {
                    let last = k + 2 == self.partial_chunks.len();
                    (
                        GetSuccessorsReply::Ok(GetSuccessorsResponse::FollowUp(self.partial_chunks[k + 1].clone())),
                        json!({"k": "followup", "last": last}),
                    )
                } else {
                    (reject(), json!({"k": "reject"}))
                }
            }
        }
    }

    fn request_json(&self, r: &GetSuccessorsRequest) -> Value {
        match r {
            GetSuccessorsRequest::Initial(i) => json!({
                "k": "initial",
                "net": i.network.to_string(),
                "anchor": self.uni.block_id_of_hash(i.anchor.as_bytes()),
                "processed": i.processed_block_hashes.iter().map(|h| self.uni.block_id_of_hash(h.as_bytes())).collect::<Vec<_>>(),
            }),
            GetSuccessorsRequest::FollowUp(k) => json!({"k": "followup", "i": k}),
        }
    }

    // ------------------------------------------------------------------ heartbeat

    fn set_budget(&self, budget: u64) {
        if budget == 0 {
            rt::set_performance_counter_step(0);
            rt::set_performance_counter(0);
        } else {
            // `should_time_slice` is `inc_performance_counter() >= 1e9`: exactly `budget` calls say no
            rt::set_performance_counter_step(1);
            rt::set_performance_counter(BIG - (budget + 1));
        }
    }

    fn clear_budget(&self) {
        rt::set_performance_counter_step(0);
        rt::set_performance_counter(0);
    }

    /// Starts a heartbeat and polls it up to the await (or to completion).
    /// Returns "done" | "await" | "trap".
    fn start_hb(&mut self, id: u64, budget: u64) -> (String, Value) {
        self.set_budget(budget);
        rt::take_requests();
        let mut fut: HbFuture = Box::pin(ic_btc_canister::heartbeat());
        let r = catch_unwind(AssertUnwindSafe(|| poll_once(fut.as_mut())));
        self.clear_budget();
        match r {
            Err(_) => {
                std::mem::forget(fut);
                ("trap".into(), json!({"k": "none"}))
            }
            Ok(Poll::Ready(())) => {
                let reqs = rt::take_requests();
                assert!(reqs.is_empty(), "a completed heartbeat cannot have passed the yield point");
                ("done".into(), json!({"k": "none"}))
            }
            Ok(Poll::Pending) => {
                let mut reqs = rt::take_requests();
                assert_eq!(reqs.len(), 1, "a suspended heartbeat records exactly one request");
                let (ticket, request) = reqs.pop().unwrap();
                let rj = self.request_json(&request);
                self.pending.insert(id, PendingHb { fut, ticket, request });
                ("await".into(), rj)
            }
        }
    }

    /// Delivers the reply to a suspended heartbeat and runs it to completion.
    fn finish_hb(&mut self, id: u64, policy: &Value) -> (String, Value) {
        let mut p = self.pending.remove(&id).expect("no such pending heartbeat");
        let (reply, logged) = self.build_reply(&p.request, policy);
        set_successors_responses(vec![reply]);
        rt::release(p.ticket);
        let r = catch_unwind(AssertUnwindSafe(|| poll_once(p.fut.as_mut())));
        match r {
            Err(_) => {
                std::mem::forget(p.fut);
                ("trap".into(), logged)
            }
            Ok(Poll::Ready(())) => ("done".into(), logged),
            Ok(Poll::Pending) => panic!("heartbeat still pending after its reply was delivered"),
        }
    }

    // ------------------------------------------------------------------ projection

    fn label_block(&self, bytes: &[u8]) -> Value {
        self.block_labels.get(bytes).cloned().unwrap_or(json!({"b": 0, "as": "?"}))
    }

    fn label_header(&self, bytes: &[u8]) -> Value {
        self.header_labels.get(bytes).cloned().unwrap_or(json!({"b": 0, "as": "?"}))
    }

    pub fn project(&self) -> Value {
        let u = &self.uni;
        with_state(|s| {
            let snap = s.unstable_blocks.verif_snapshot();
            let tree: Vec<Value> = snap
                .block_infos
                .iter()
                .map(|(h, d, _fees, _delta)| json!([u.block_id_of_hash(h.as_bytes()), (*d as u64)]))
                .collect();
            let best: Vec<usize> = ic_btc_canister::unstable_blocks::get_main_chain(&s.unstable_blocks)
                .into_chain()
                .iter()
                .map(|b| u.block_id_of_hash(b.block().block_hash().as_bytes()))
                .collect();
            // stable header store: height -> block
            let hdr: Vec<usize> = s
                .stable_block_headers
                .block_heights
                .iter()
                .map(|e| {
                    let (_h, hash) = e.into_pair();
                    u.block_id_of_hash(hash.as_bytes())
                })
                .collect();
            let hdr_heights_ok = s
                .stable_block_headers
                .block_heights
                .iter()
                .enumerate()
                .all(|(i, e)| e.into_pair().0 as usize == i);
            let ing = match &s.utxos.ingesting_block {
                None => json!([]),
                Some(ib) => json!([
                    u.block_id_of_hash(ib.block.block_hash().as_bytes()),
                    ib.next_tx_idx,
                    ib.next_input_idx,
                    ib.next_output_idx
                ]),
            };
            let resp = match &s.syncing_state.response_to_process {
                None => json!({"k": "none"}),
                Some(state::ResponseToProcess::Complete(c)) => json!({
                    "k": "complete",
                    "blocks": c.blocks.iter().map(|b| self.label_block(b)).collect::<Vec<_>>(),
                    "next": c.next.iter().map(|h| self.label_header(h.as_slice())).collect::<Vec<_>>(),
                }),
                Some(state::ResponseToProcess::Partial(p, idx)) => {
                    let idx_u = *idx as usize;
                    let expect: Vec<u8> = self.partial_chunks.iter().take(idx_u + 1).flatten().copied().collect();
                    json!({
                        "k": "partial",
                        "item": self.partial_item,
                        "n": p.remaining_follow_ups,
                        "got": idx,
                        "pfx": expect == p.partial_block,
                        "next": p.next.iter().map(|h| self.label_header(h.as_slice())).collect::<Vec<_>>(),
                    })
                }
            };
            let mut next: Vec<(usize, u32)> = snap
                .next_headers
                .iter()
                .map(|(h, height)| (u.block_id_of_hash(h.as_bytes()), *height))
                .collect();
            next.sort();
            let fee = match &s.fee_percentiles_cache {
                None => json!({"tip": 0, "vals": []}),
                Some(c) => json!({"tip": u.block_id_of_hash(c.tip_block_hash.as_bytes()), "vals": c.fee_percentiles}),
            };
            let cfg = json!({
                "net": s.network().to_string(),
                "thr": s.unstable_blocks.stability_threshold(),
                "api": s.api_access == Flag::Enabled,
                "syncing": s.syncing_state.syncing == Flag::Enabled,
                "gate": s.disable_api_if_not_fully_synced == Flag::Enabled,
                "lazy": s.lazily_evaluate_fee_percentiles == Flag::Enabled,
                "burn": s.burn_cycles == Flag::Enabled,
                "fees": fees_to_json(&s.fees),
            });
            let st = &s.syncing_state;
            // cycles burnt, in units of what one heartbeat burns natively (a remainder would show as a mismatch)
            let burnt = {
                let b = s.metrics.cycles_burnt.unwrap_or(0);
                if b % 1_000_000 == 0 { json!((b / 1_000_000) as u64) } else { json!(format!("{b}")) }
            };
            let cnt = json!({
                "rej": st.num_get_successors_rejects,
                "deser": st.num_block_deserialize_errors,
                "ins": st.num_insert_block_errors,
                "reqInit": st.get_successors_request_stats.initial_count,
                "reqFollow": st.get_successors_request_stats.follow_up_count,
                "sendtx": s.metrics.send_transaction_count,
                "burnt": burnt,
                "respC": st.get_successors_response_stats.complete_count,
                "respP": st.get_successors_response_stats.partial_count,
                "respF": st.get_successors_response_stats.follow_up_count,
                "blkC": st.get_successors_response_stats.complete_block_count,
            });
            let mut post = json!({
                "stableH": s.utxos.next_height(),
                "tree": tree,
                "best": best,
                "hdr": hdr,
                "hdrOk": hdr_heights_ok,
                "ing": ing,
                "fetching": st.is_fetching_blocks,
                "resp": resp,
                "next": next.iter().map(|(b, h)| json!([b, h])).collect::<Vec<_>>(),
                "fee": fee,
                "cfg": cfg,
                "cnt": cnt,
            });
            if self.cfg.book {
                post["book"] = self.bookkeeping(&snap);
            }
            post
        })
    }

    /// The C20 snapshot in abstract terms (everything sorted canonically).
    fn bookkeeping(&self, snap: &ic_btc_canister::unstable_blocks::VerifUnstableSnapshot) -> Value {
        let u = &self.uni;
        let ids = |v: &Vec<ic_btc_types::BlockHash>| {
            let mut r: Vec<usize> = v.iter().map(|h| u.block_id_of_hash(h.as_bytes())).collect();
            r.sort();
            r
        };
        let mut outs: Vec<(usize, u32, u32)> = snap
            .tx_outs
            .iter()
            .map(|(o, _v, _s, _h, c)| (u.tx_id_of(o.txid.as_bytes()), o.vout + 1, *c))
            .collect();
        outs.sort();
        let delta = |v: &Vec<(ic_btc_types::BlockHash, String, Vec<ic_btc_types::OutPoint>)>| {
            let mut r: Vec<(usize, i64, Vec<(usize, u32)>)> = v
                .iter()
                .filter(|(_, _, ops)| !ops.is_empty())
                .map(|(h, a, ops)| {
                    (
                        u.block_id_of_hash(h.as_bytes()),
                        u.string_to_addr.get(a).copied().unwrap_or(-9),
                        {
                            // the order inside a block's list is not observable (answers are sorted): compare sorted
                            let mut l: Vec<(usize, u32)> = ops.iter().map(|o| (u.tx_id_of(o.txid.as_bytes()), o.vout + 1)).collect();
                            l.sort();
                            l
                        },
                    )
                })
                .collect();
            r.sort();
            r.iter()
                .map(|(b, a, ops)| json!([b, a, ops.iter().map(|(t, j)| json!([t, j])).collect::<Vec<_>>()]))
                .collect::<Vec<_>>()
        };
        let mut depths = snap.tip_depths_cache.clone();
        depths.sort();
        let mut next_idx: Vec<(u32, Vec<usize>)> = snap
            .next_heights
            .iter()
            .map(|(h, v)| {
                let mut ids: Vec<usize> = v.iter().map(|x| u.block_id_of_hash(x.as_bytes())).collect();
                ids.sort();
                (*h, ids)
            })
            .collect();
        next_idx.sort();
        json!({
            "cache": ids(&snap.cached_block_hashes),
            "addedB": ids(&snap.added_blocks),
            "removedB": ids(&snap.removed_blocks),
            "outs": outs.iter().map(|(t, j, c)| json!([t, j, c])).collect::<Vec<_>>(),
            "added": delta(&snap.added),
            "removed": delta(&snap.removed),
            "tips": depths,
            "nextIdx": next_idx.iter().map(|(h, v)| json!([h, v])).collect::<Vec<_>>(),
        })
    }

    // ------------------------------------------------------------------ queries

    fn addr_string(&self, v: &Value) -> (String, String, i64) {
        // returns (string, class, id)
        if let Some(id) = v.as_i64() {
            (self.uni.addr_strings[&id].clone(), "ok".into(), id)
        } else if v.is_object() {
            // another spelling of an address of the universe: bech32 / bech32m text may be written all upper-case
            // (BIP-173; same address), mixed case is invalid, a changed character breaks the checksum
            let id = v["id"].as_i64().unwrap();
            let s = self.uni.addr_strings[&id].clone();
            let is_bech = ["bc1", "tb1", "bcrt1"].iter().any(|p| s.starts_with(p));
            match v["sp"].as_str().unwrap_or("") {
                "upper" if is_bech => (s.to_uppercase(), "ok".into(), id),
                "mixed" if is_bech => {
                    // upper-case the last letter of the data part only
                    let mut cs: Vec<char> = s.chars().collect();
                    if let Some(i) = cs.iter().rposition(|c| c.is_ascii_lowercase()) {
                        cs[i] = cs[i].to_ascii_uppercase();
                    }
                    (cs.into_iter().collect(), "malformed".into(), 0)
                }
                "badsum" => {
                    let mut cs: Vec<char> = s.chars().collect();
                    let n = cs.len();
                    cs[n - 1] = if cs[n - 1] == 'q' { 'p' } else { 'q' };
                    (cs.into_iter().collect(), "malformed".into(), 0)
                }
                "space" => (format!(" {s}"), "malformed".into(), 0),
                _ => (s, "ok".into(), id),
            }
        } else {
            match v.as_str().unwrap() {
                "malformed" => ("this is not an address".into(), "malformed".into(), 0),
                "wrongnet" => {
                    let s = match self.uni.network {
                        Network::Mainnet => "tb1qw508d6qejxtdg4y5r3zarvary0c5xw7kxpjzsx",
                        _ => "1BvBMSEYstWetqTFn5Au4m4GFg7xJaNVN2",
                    };
                    (s.into(), "wrongnet".into(), 0)
                }
                other => panic!("bad address class {other}"),
            }
        }
    }

    /// Sets the instruction counter that the call will observe and the cycles attached to it.
    fn arm(&self, cmd: &Value) -> (u64, i64) {
        let instr = cmd["instr"].as_u64().unwrap_or(0);
        rt::set_performance_counter_step(0);
        rt::set_performance_counter(instr);
        let avail = cmd["avail"].as_i64().unwrap_or(-1);
        rt::set_cycles_available(if avail >= 0 { Some(avail as u128) } else { None });
        (instr, avail)
    }

    fn disarm(&self) {
        rt::set_performance_counter(0);
        rt::set_cycles_available(None);
    }

    fn cyc_json(x: u128) -> Value {
        if x < (1u128 << 31) {
            json!(x as u64)
        } else {
            json!(x.to_string())
        }
    }

    fn classify_trap(msg: &str) -> &'static str {
        if msg.starts_with("Bitcoin API is disabled") {
            "api_disabled"
        } else if msg.starts_with("Network must be") {
            "wrong_network"
        } else if msg.starts_with("Canister state is not fully synced") {
            "not_synced"
        } else if msg.starts_with("Received ") && msg.contains("cycles are required") {
            "cycles"
        } else {
            "other"
        }
    }

    fn trap_answer() -> Value {
        let msg = last_panic();
        json!({"k": "trap", "why": Self::classify_trap(&msg), "msg": msg})
    }

    fn utxo_json(&self, x: &ic_btc_interface::Utxo) -> Value {
        json!([self.uni.tx_id_of(x.outpoint.txid.as_ref()), x.outpoint.vout + 1, x.value, x.height])
    }

    fn utxos_err(e: &ic_btc_interface::GetUtxosError) -> &'static str {
        use ic_btc_interface::GetUtxosError::*;
        match e {
            MalformedAddress => "MalformedAddress",
            AddressForWrongNetwork { .. } => "AddressForWrongNetwork",
            MinConfirmationsTooLarge { .. } => "MinConfirmationsTooLarge",
            UnknownTipBlockHash { .. } => "UnknownTipBlockHash",
            MalformedPage { .. } => "MalformedPage",
        }
    }

    fn call_utxos(
        &self,
        addr: &str,
        net: &str,
        filter: Option<UtxosFilterInRequest>,
        mode: &str,
        limit: usize,
    ) -> Result<Result<ic_btc_interface::GetUtxosResponse, ic_btc_interface::GetUtxosError>, ()> {
        let req = GetUtxosRequest {
            address: addr.to_string(),
            network: net_in_request(net),
            filter,
        };
        catch_unwind(AssertUnwindSafe(|| {
            if limit > 0 {
                ic_btc_canister::get_utxos_with_limit(req, limit)
            } else if mode == "update" {
                ic_btc_canister::get_utxos(req)
            } else {
                ic_btc_canister::get_utxos_query(req)
            }
        }))
        .map_err(|_| ())
    }

    /// get_utxos following all pages.
    fn q_utxos(&mut self, cmd: &Value) -> Value {
        let (addr, ac, id) = self.addr_string(&cmd["addr"]);
        let net = cmd["net"].as_str().unwrap_or(&self.cfg.net).to_string();
        let c = cmd["mc"].as_i64().unwrap_or(-1);
        let limit = cmd["limit"].as_u64().unwrap_or(0) as usize;
        let mode = cmd["mode"].as_str().unwrap_or("update").to_string();
        let (instr, avail) = self.arm(cmd);
        let before = rt::cycles_accepted();
        let mut filter = if c >= 0 {
            Some(UtxosFilterInRequest::MinConfirmations(c as u32))
        } else {
            None
        };
        let mut all = vec![];
        let mut pages = 0u64;
        let mut max_page = 0usize;
        let mut same_tip = true;
        let mut first: Option<(Vec<u8>, u32)> = None;
        // a complete answer cannot need more pages than there are outputs in the universe (+ the last, possibly
        // empty, one): a walk that goes on is cut there and fails the once / entries comparison, instead of
        // producing an answer of thousands of repeated entries
        let per_page: u64 = if limit > 0 { limit as u64 } else { 1000 };
        let page_cap: u64 = self.uni.tx_specs.values().map(|t| t.outs.len() as u64).sum::<u64>() / per_page + 3;
        let ans = loop {
            match self.call_utxos(&addr, &net, filter.take(), &mode, limit) {
                Err(()) => break Self::trap_answer(),
                Ok(Err(e)) => break json!({"k": "err", "err": Self::utxos_err(&e), "page": pages}),
                Ok(Ok(r)) => {
                    pages += 1;
                    max_page = max_page.max(r.utxos.len());
                    match &first {
                        None => first = Some((r.tip_block_hash.clone(), r.tip_height)),
                        Some((h, ht)) => {
                            if *h != r.tip_block_hash || *ht != r.tip_height {
                                same_tip = false;
                            }
                        }
                    }
                    for x in &r.utxos {
                        all.push(self.utxo_json(x));
                    }
                    match r.next_page {
                        Some(p) if pages < page_cap => {
                            filter = Some(UtxosFilterInRequest::Page(p));
                        }
                        _ => {
                            let (h, ht) = first.clone().unwrap();
                            break json!({"k": "ok", "tip": self.uni.block_id_of_hash(&h), "tipHeight": ht, "utxos": all,
                                         "pages": pages, "maxPage": max_page, "sameTip": same_tip});
                        }
                    }
                }
            }
        };
        let cyc = rt::cycles_accepted() - before;
        self.disarm();
        json!({"ev": "q", "ep": "utxos", "ac": ac, "addr": id, "net": net, "mc": c, "limit": limit, "mode": mode,
               "ans": ans, "cyc": Self::cyc_json(cyc), "instr": instr, "avail": avail})
    }

    fn q_balance(&mut self, cmd: &Value) -> Value {
        let (addr, ac, id) = self.addr_string(&cmd["addr"]);
        let net = cmd["net"].as_str().unwrap_or(&self.cfg.net).to_string();
        let c = cmd["mc"].as_i64().unwrap_or(-1);
        let mode = cmd["mode"].as_str().unwrap_or("update").to_string();
        let (instr, avail) = self.arm(cmd);
        let before = rt::cycles_accepted();
        let req = GetBalanceRequest {
            address: addr,
            network: net_in_request(&net),
            min_confirmations: if c >= 0 { Some(c as u32) } else { None },
        };
        let r = catch_unwind(AssertUnwindSafe(|| {
            if mode == "update" {
                ic_btc_canister::get_balance(req)
            } else {
                ic_btc_canister::get_balance_query(req)
            }
        }));
        let ans = match r {
            Err(_) => Self::trap_answer(),
            Ok(Ok(v)) => json!({"k": "ok", "v": v}),
            Ok(Err(e)) => {
                use ic_btc_interface::GetBalanceError::*;
                json!({"k": "err", "err": match e {
                    MalformedAddress => "MalformedAddress",
                    AddressForWrongNetwork { .. } => "AddressForWrongNetwork",
                    MinConfirmationsTooLarge { .. } => "MinConfirmationsTooLarge",
                }})
            }
        };
        let cyc = rt::cycles_accepted() - before;
        self.disarm();
        json!({"ev": "q", "ep": "balance", "ac": ac, "addr": id, "net": net, "mc": c, "mode": mode, "ans": ans,
               "cyc": Self::cyc_json(cyc), "instr": instr, "avail": avail})
    }

    fn q_headers(&mut self, cmd: &Value) -> Value {
        let net = cmd["net"].as_str().unwrap_or(&self.cfg.net).to_string();
        let s = cmd["s"].as_u64().unwrap() as u32;
        let e = cmd["e"].as_i64().unwrap_or(-1);
        let (instr, avail) = self.arm(cmd);
        let before = rt::cycles_accepted();
        let req = GetBlockHeadersRequest {
            start_height: s,
            end_height: if e >= 0 { Some(e as u32) } else { None },
            network: net_in_request(&net),
        };
        let r = catch_unwind(AssertUnwindSafe(|| ic_btc_canister::get_block_headers(req)));
        let ans = match r {
            Err(_) => Self::trap_answer(),
            Ok(Ok(resp)) => {
                let mut ids = vec![];
                let mut all80 = true;
                let mut linked = true;
                let mut prev: Option<bitcoin::BlockHash> = None;
                for h in &resp.block_headers {
                    if h.len() != 80 {
                        all80 = false;
                        ids.push(0);
                        continue;
                    }
                    let hdr: bitcoin::block::Header = bitcoin::consensus::deserialize(h).unwrap();
                    if let Some(p) = prev {
                        if hdr.prev_blockhash != p {
                            linked = false;
                        }
                    }
                    prev = Some(hdr.block_hash());
                    ids.push(self.uni.block_id_of_hash(hdr.block_hash().as_byte_array()));
                }
                json!({"k": "ok", "tipHeight": resp.tip_height, "headers": ids, "all80": all80, "linked": linked})
            }
            Ok(Err(e)) => {
                use ic_btc_interface::GetBlockHeadersError::*;
                json!({"k": "err", "err": match e {
                    StartHeightDoesNotExist { .. } => "StartHeightDoesNotExist",
                    EndHeightDoesNotExist { .. } => "EndHeightDoesNotExist",
                    StartHeightLargerThanEndHeight { .. } => "StartHeightLargerThanEndHeight",
                }})
            }
        };
        let cyc = rt::cycles_accepted() - before;
        self.disarm();
        json!({"ev": "q", "ep": "headers", "net": net, "s": s, "e": e, "ans": ans, "cyc": Self::cyc_json(cyc), "instr": instr, "avail": avail})
    }

    fn q_fees(&mut self, cmd: &Value) -> Value {
        let net = cmd["net"].as_str().unwrap_or(&self.cfg.net).to_string();
        let (instr, avail) = self.arm(cmd);
        let before = rt::cycles_accepted();
        let req = GetCurrentFeePercentilesRequest {
            network: net_in_request(&net),
        };
        let r = catch_unwind(AssertUnwindSafe(|| ic_btc_canister::get_current_fee_percentiles(req)));
        let ans = match r {
            Err(_) => Self::trap_answer(),
            Ok(v) => json!({"k": "ok", "vals": v}),
        };
        let cyc = rt::cycles_accepted() - before;
        self.disarm();
        // the fee query may fill the cache: log the post-state
        json!({"ev": "q", "ep": "fees", "net": net, "ans": ans, "cyc": Self::cyc_json(cyc), "instr": instr, "avail": avail,
               "post": self.project()})
    }

    // (the names of the metrics the specification determines; histograms of instruction counts, sizes in
    // bytes and the per-phase ingestion statistics are not modelled)
    fn q_info(&mut self) -> Value {
        let r = catch_unwind(AssertUnwindSafe(ic_btc_canister::get_blockchain_info));
        let ans = match r {
            Err(_) => Self::trap_answer(),
            Ok(i) => json!({"k": "ok", "height": i.height, "tip": self.uni.block_id_of_hash(&i.block_hash),
                            "time": i.timestamp as i64 - self.uni.genesis_time as i64, "diff": i.difficulty as u64,
                            "utxosLength": i.utxos_length}),
        };
        json!({"ev": "q", "ep": "info", "ans": ans})
    }

    /// The metrics endpoint (`http_request("/metrics")`, natively executable through the `verif` hook of
    /// api/metrics.rs): status, headers, and the gauges / counters of the Prometheus text, by name.
    fn q_metrics(&mut self, cmd: &Value) -> Value {
        // the request is path [? query]; the specification decides on the path
        let path = cmd["path"].as_str().unwrap_or("/metrics").to_string();
        let url = match cmd["query"].as_str() { Some(q) => format!("{path}?{q}"), None => path.clone() };
        let req = ic_btc_canister::types::HttpRequest {
            method: "GET".to_string(),
            url: url.clone(),
            headers: vec![],
            body: serde_bytes::ByteBuf::from(vec![]),
        };
        let r = catch_unwind(AssertUnwindSafe(|| ic_btc_canister::http_request(req)));
        let ans = match r {
            Err(_) => Self::trap_answer(),
            Ok(resp) => {
                let body = String::from_utf8_lossy(&resp.body).to_string();
                let mut g = serde_json::Map::new();
                let mut stamps_ok = true;
                let mut wellformed = true;
                let now_ms = (ic_btc_canister::runtime::time() / 1_000_000) as i64;
                for line in body.lines() {
                    if line.starts_with('#') || line.trim().is_empty() {
                        continue;
                    }
                    // name{labels} value timestamp
                    let parts: Vec<&str> = line.rsplitn(3, ' ').collect();
                    if parts.len() != 3 {
                        wellformed = false;
                        continue;
                    }
                    let (ts, val, name) = (parts[0], parts[1], parts[2]);
                    if ts.parse::<i64>().ok() != Some(now_ms) {
                        stamps_ok = false;
                    }
                    let key: String = name.chars().map(|c| if c.is_ascii_alphanumeric() { c } else { '_' }).collect::<String>()
                        .trim_end_matches('_').replace("__", "_");
                    if key == "cycles_burnt" {
                        // in units of what one heartbeat burns natively, like the projection of the state
                        match val.parse::<f64>() {
                            Ok(v) if v.fract() == 0.0 && (v as u128) % 1_000_000 == 0 => { g.insert(key, json!((v as u128 / 1_000_000) as u64)); }
                            _ => { g.insert(key, json!(val)); }
                        }
                        continue;
                    }
                    if !METRIC_NAMES.contains(&key.as_str()) {
                        if val.parse::<f64>().is_err() { wellformed = false; }
                        continue;
                    }
                    match val.parse::<f64>() {
                        Ok(v) if v.fract() == 0.0 && v.abs() < 2e9 => { g.insert(key, json!(v as i64)); }
                        Ok(v) => { g.insert(key, json!(format!("{v}"))); }
                        Err(_) => { wellformed = false; }
                    }
                }
                // a gauge that is absent from the text is logged as -1 (a mismatch, not an evaluation error)
                if resp.status_code == 200 {
                    for name in METRIC_NAMES.iter().chain(["cycles_burnt"].iter()) {
                        g.entry(name.to_string()).or_insert(json!(-1));
                    }
                }
                let clen = resp.headers.iter().find(|(k, _)| k == "Content-Length").map(|(_, v)| v.clone());
                let ctype = resp.headers.iter().find(|(k, _)| k == "Content-Type").map(|(_, v)| v.clone());
                json!({"k": "ok", "status": resp.status_code, "nheaders": resp.headers.len(),
                       "clenOk": clen.map(|c| c == resp.body.len().to_string()).unwrap_or(false),
                       "ctype": ctype.unwrap_or_default(),
                       "stampsOk": stamps_ok, "wellformed": wellformed, "bodyLen": resp.body.len(), "g": Value::Object(g)})
            }
        };
        json!({"ev": "q", "ep": "metrics", "path": path, "url": url, "ans": ans})
    }

    fn q_config(&mut self) -> Value {
        let r = catch_unwind(AssertUnwindSafe(ic_btc_canister::get_config));
        let ans = match r {
            Err(_) => Self::trap_answer(),
            Ok(c) => json!({"k": "ok", "cfg": {
                "net": c.network.to_string(), "thr": c.stability_threshold as u64, "api": c.api_access == Flag::Enabled,
                "syncing": c.syncing == Flag::Enabled, "gate": c.disable_api_if_not_fully_synced == Flag::Enabled,
                "lazy": c.lazily_evaluate_fee_percentiles == Flag::Enabled, "burn": c.burn_cycles == Flag::Enabled,
                "fees": fees_to_json(&c.fees)},
                "watchdog": format!("{:?}", c.watchdog_canister), "source": c.blocks_source.to_string()}),
        };
        json!({"ev": "q", "ep": "config", "ans": ans})
    }

    // ------------------------------------------------------------------ send_transaction (C19)

    /// Builds a transaction from a small description, serialises it and applies a mutation.
    fn tx_payload(&self, cmd: &Value) -> (Vec<u8>, String) {
        use bitcoin::consensus::Encodable;
        let d = &cmd["tx"];
        let nin = d["nin"].as_u64().unwrap_or(1) as usize;
        let nout = d["nout"].as_u64().unwrap_or(1) as usize;
        let w = d["w"].as_bool().unwrap_or(false);
        let salt = d["salt"].as_u64().unwrap_or(0);
        let shape = d["shape"].as_str().unwrap_or("plain");
        let h = |tag: &str, i: usize| -> [u8; 32] {
            use bitcoin::hashes::{sha256, Hash};
            let mut data = tag.as_bytes().to_vec();
            data.extend_from_slice(&salt.to_le_bytes());
            data.extend_from_slice(&(i as u64).to_le_bytes());
            sha256::Hash::hash(&data).to_byte_array()
        };
        let input: Vec<bitcoin::TxIn> = (0..nin)
            .map(|i| {
                let mut witness = bitcoin::Witness::new();
                if w && (i % 2 == 0) {
                    witness.push(h("w", i)[..(i % 30) + 1].to_vec());
                }
                // shapes of well-formed transactions that a "sanity check" might single out
                let previous_output = match shape {
                    "null_prev" if i == 0 => bitcoin::OutPoint::null(),
                    "null_prev_all" => bitcoin::OutPoint::null(),
                    "zero_txid" => bitcoin::OutPoint { txid: bitcoin::Txid::from_byte_array([0u8; 32]), vout: i as u32 },
                    "max_vout" => bitcoin::OutPoint { txid: bitcoin::Txid::from_byte_array(h("prev", i)), vout: u32::MAX },
                    "dup_inputs" => bitcoin::OutPoint { txid: bitcoin::Txid::from_byte_array(h("prev", 0)), vout: 0 },
                    _ => bitcoin::OutPoint { txid: bitcoin::Txid::from_byte_array(h("prev", i)), vout: i as u32 },
                };
                bitcoin::TxIn {
                    previous_output,
                    script_sig: bitcoin::ScriptBuf::from_bytes(h("sig", i)[..(salt as usize + i) % 32].to_vec()),
                    sequence: bitcoin::Sequence((salt as u32).wrapping_mul(31).wrapping_add(i as u32)),
                    witness,
                }
            })
            .collect();
        let output: Vec<bitcoin::TxOut> = (0..nout)
            .map(|i| bitcoin::TxOut {
                value: bitcoin::Amount::from_sat(match shape {
                    "huge_value" => u64::MAX - i as u64,
                    "zero_value" => 0,
                    _ => salt * 1000 + i as u64,
                }),
                script_pubkey: match shape {
                    "op_return" => bitcoin::ScriptBuf::from_bytes([vec![0x6a, 0x20], h("spk", i).to_vec()].concat()),
                    "empty_script" => bitcoin::ScriptBuf::new(),
                    "big_script" => bitcoin::ScriptBuf::from_bytes((0..11000).map(|k| h("spk", k / 32)[k % 32]).collect()),
                    _ => bitcoin::ScriptBuf::from_bytes(h("spk", i)[..(salt as usize * 7 + i) % 33].to_vec()),
                },
            })
            .collect();
        let tx = bitcoin::Transaction {
            version: bitcoin::transaction::Version(match shape {
                "neg_version" => -1,
                "max_version" => i32::MAX,
                _ => (salt % 3) as i32,
            }),
            lock_time: bitcoin::absolute::LockTime::from_consensus(if shape == "max_locktime" { u32::MAX } else { (salt as u32) * 17 }),
            input,
            output,
        };
        let mut bytes = vec![];
        tx.consensus_encode(&mut bytes).unwrap();
        let m = &cmd["mut"];
        let kind = m["k"].as_str().unwrap_or("exact").to_string();
        let out = match kind.as_str() {
            "exact" => bytes,
            "trunc" => {
                let n = (m["n"].as_u64().unwrap_or(1) as usize).clamp(1, bytes.len());
                bytes[..bytes.len() - n].to_vec()
            }
            "extend" => {
                let extra = hex::decode(m["hex"].as_str().unwrap_or("00")).unwrap();
                let mut v = bytes;
                v.extend_from_slice(&extra);
                v
            }
            "prepend" => {
                let mut v = hex::decode(m["hex"].as_str().unwrap_or("00")).unwrap();
                v.extend_from_slice(&bytes);
                v
            }
            "flip" => {
                let mut v = bytes;
                let bit = m["bit"].as_u64().unwrap_or(0) as usize % (v.len() * 8);
                v[bit / 8] ^= 1 << (bit % 8);
                v
            }
            "garbage" => {
                let n = m["len"].as_u64().unwrap_or(10) as usize;
                (0..n).map(|i| h("garbage", i / 32)[i % 32]).collect()
            }
            "empty" => vec![],
            other => panic!("unknown mutation {other}"),
        };
        (out, kind)
    }

    fn send_tx(&mut self, cmd: &Value) -> Value {
        let net = cmd["net"].as_str().unwrap_or(&self.cfg.net).to_string();
        let (payload, kind) = self.tx_payload(cmd);
        let valid = crate::txparse::is_exactly_one_transaction(&payload);
        let (_instr, avail) = self.arm(cmd);
        rt::take_sent_transactions();
        let before = rt::cycles_accepted();
        let req = ic_btc_interface::SendTransactionRequest {
            transaction: payload.clone(),
            network: net_in_request(&net),
        };
        let r = catch_unwind(AssertUnwindSafe(|| block_on(ic_btc_canister::send_transaction(req))));
        let cyc = rt::cycles_accepted() - before;
        self.disarm();
        let sent = rt::take_sent_transactions();
        let ans = match r {
            Err(_) => Self::trap_answer(),
            Ok(Ok(())) => json!({"k": "ok"}),
            Ok(Err(e)) => json!({"k": "err", "err": match e {
                ic_btc_interface::SendTransactionError::MalformedTransaction => "MalformedTransaction",
                ic_btc_interface::SendTransactionError::QueueFull => "QueueFull",
            }}),
        };
        let same = sent.len() == 1 && sent[0].transaction == payload && sent[0].network.to_string() == self.cfg.net;
        json!({"ev": "send_tx", "net": net, "cls": if valid { "valid" } else { "invalid" }, "mut": kind, "len": payload.len(),
               "ans": ans, "fwd": sent.len(), "fwdSame": same, "cyc": Self::cyc_json(cyc), "avail": avail, "post": self.project()})
    }

    // ------------------------------------------------------------------ paginated walks

    fn walk_step(&mut self, w: u64, first: Option<(String, String, i64, usize)>) -> Value {
        // first = (addr string, net, min_confirmations, limit) for the first page
        let (addr, net, limit, filter) = match first {
            Some((a, n, c, l)) => {
                self.walks.insert(w, Walk { addr: a.clone(), net: n.clone(), limit: l, token: None });
                let f = if c >= 0 { Some(UtxosFilterInRequest::MinConfirmations(c as u32)) } else { None };
                (a, n, l, f)
            }
            None => {
                let wk = self.walks.get(&w).expect("unknown walk");
                let tok = wk.token.clone().expect("walk has no further page");
                (wk.addr.clone(), wk.net.clone(), wk.limit, Some(UtxosFilterInRequest::Page(serde_bytes::ByteBuf::from(tok))))
            }
        };
        match self.call_utxos(&addr, &net, filter, "query", limit) {
            Err(()) => Self::trap_answer(),
            Ok(Err(e)) => json!({"k": "err", "err": Self::utxos_err(&e)}),
            Ok(Ok(r)) => {
                let more = r.next_page.is_some();
                self.walks.get_mut(&w).unwrap().token = r.next_page.map(|p| p.into_vec());
                json!({"k": "ok", "tip": self.uni.block_id_of_hash(&r.tip_block_hash), "tipHeight": r.tip_height,
                       "utxos": r.utxos.iter().map(|x| self.utxo_json(x)).collect::<Vec<_>>(), "more": more})
            }
        }
    }

    // ------------------------------------------------------------------ command dispatch

    fn set_config_request(d: &Value) -> SetConfigRequest {
        SetConfigRequest {
            stability_threshold: d.get("thr").and_then(|v| v.as_u64()).map(|v| v as u128),
            syncing: d.get("syncing").and_then(|v| v.as_bool()).map(flag),
            api_access: d.get("api").and_then(|v| v.as_bool()).map(flag),
            disable_api_if_not_fully_synced: d.get("gate").and_then(|v| v.as_bool()).map(flag),
            lazily_evaluate_fee_percentiles: d.get("lazy").and_then(|v| v.as_bool()).map(flag),
            burn_cycles: d.get("burn").and_then(|v| v.as_bool()).map(flag),
            fees: d.get("fees").map(fees_from_json),
            ..Default::default()
        }
    }

    pub fn run(&mut self, cmds: &[Value]) {
        for cmd in cmds {
            if self.dead {
                break;
            }
            let ev = self.step(cmd);
            for e in ev {
                self.events.push(e);
            }
        }
    }

    fn step(&mut self, cmd: &Value) -> Vec<Value> {
        let c = cmd["c"].as_str().expect("command kind");
        match c {
            "hb" => {
                let budget = cmd["budget"].as_u64().unwrap_or(0);
                let id = 1_000_000 + self.events.len() as u64;
                let (st, req) = self.start_hb(id, budget);
                let (st2, reply) = if st == "await" {
                    self.finish_hb(id, cmd)
                } else {
                    (st, json!({"k": "none"}))
                };
                if st2 == "trap" {
                    self.dead = true;
                    return vec![json!({"ev": "hb", "budget": budget, "req": req, "reply": reply, "out": "trap", "msg": last_panic()})];
                }
                vec![json!({"ev": "hb", "budget": budget, "req": req, "reply": reply, "out": "ok", "post": self.project()})]
            }
            "hb_send" => {
                let budget = cmd["budget"].as_u64().unwrap_or(0);
                let id = cmd["id"].as_u64().unwrap();
                let (st, req) = self.start_hb(id, budget);
                if st == "trap" {
                    self.dead = true;
                    return vec![json!({"ev": "hb_send", "id": id, "budget": budget, "req": req, "out": "trap", "msg": last_panic()})];
                }
                vec![json!({"ev": "hb_send", "id": id, "budget": budget, "req": req, "out": st, "post": self.project()})]
            }
            "hb_reply" => {
                let id = cmd["id"].as_u64().unwrap();
                if !self.pending.contains_key(&id) {
                    return vec![json!({"ev": "skip", "why": "no pending heartbeat with this id", "id": id})];
                }
                let (st, reply) = self.finish_hb(id, cmd);
                if st == "trap" {
                    self.dead = true;
                    return vec![json!({"ev": "hb_reply", "id": id, "reply": reply, "out": "trap", "msg": last_panic()})];
                }
                vec![json!({"ev": "hb_reply", "id": id, "reply": reply, "out": "ok", "post": self.project()})]
            }
            "q" => {
                let ep = cmd["ep"].as_str().unwrap();
                vec![match ep {
                    "utxos" => self.q_utxos(cmd),
                    "balance" => self.q_balance(cmd),
                    "headers" => self.q_headers(cmd),
                    "fees" => self.q_fees(cmd),
                    "info" => self.q_info(),
                    "config" => self.q_config(),
                    "metrics" => self.q_metrics(cmd),
                    other => panic!("unknown endpoint {other}"),
                }]
            }
            "walk_start" => {
                let w = cmd["w"].as_u64().unwrap();
                let (addr, _ac, id) = self.addr_string(&cmd["addr"]);
                let net = cmd["net"].as_str().unwrap_or(&self.cfg.net).to_string();
                let c = cmd["mc"].as_i64().unwrap_or(-1);
                let limit = cmd["limit"].as_u64().unwrap_or(0) as usize;
                let ans = self.walk_step(w, Some((addr, net, c, limit)));
                vec![json!({"ev": "walk_start", "w": w, "addr": id, "mc": c, "limit": limit, "ans": ans})]
            }
            "walk_next" => {
                let w = cmd["w"].as_u64().unwrap();
                let has = self.walks.get(&w).map(|x| x.token.is_some()).unwrap_or(false);
                if !has {
                    return vec![json!({"ev": "skip", "why": "walk has no further page", "w": w})];
                }
                let ans = self.walk_step(w, None);
                vec![json!({"ev": "walk_next", "w": w, "ans": ans})]
            }
            "page_raw" => {
                // an arbitrary byte string as page: must give an answer or an error, never a trap
                let (addr, _ac, id) = self.addr_string(&cmd["addr"]);
                let bytes = hex::decode(cmd["hex"].as_str().unwrap()).unwrap();
                let net = self.cfg.net.clone();
                let r = self.call_utxos(&addr, &net, Some(UtxosFilterInRequest::Page(serde_bytes::ByteBuf::from(bytes.clone()))), "query", 0);
                let ans = match r {
                    Err(()) => Self::trap_answer(),
                    Ok(Err(e)) => json!({"k": "err", "err": Self::utxos_err(&e)}),
                    Ok(Ok(r)) => json!({"k": "ok", "tip": self.uni.block_id_of_hash(&r.tip_block_hash), "n": r.utxos.len()}),
                };
                let tip_id = if bytes.len() >= 32 { self.uni.block_id_of_hash(&bytes[..32]) } else { 0 };
                vec![json!({"ev": "page_raw", "addr": id, "len": bytes.len(), "tipId": tip_id, "ans": ans})]
            }
            "set_config" => {
                let d = cmd["d"].clone();
                let r = catch_unwind(AssertUnwindSafe(|| ic_btc_canister::set_config(Self::set_config_request(&d))));
                if r.is_err() {
                    self.dead = true;
                    return vec![json!({"ev": "set_config", "d": d, "out": "trap", "msg": last_panic()})];
                }
                vec![json!({"ev": "set_config", "d": d, "out": "ok", "post": self.project()})]
            }
            "upgrade" => {
                let d = cmd["d"].clone();
                let has = d.as_object().map(|o| !o.is_empty()).unwrap_or(false);
                // suspended heartbeats are never resumed after an upgrade
                let old: Vec<u64> = self.pending.keys().copied().collect();
                for id in old {
                    let p = self.pending.remove(&id).unwrap();
                    std::mem::forget(p.fut);
                }
                let r = catch_unwind(AssertUnwindSafe(|| {
                    ic_btc_canister::pre_upgrade();
                    ic_btc_canister::post_upgrade(if has { Some(Self::set_config_request(&d)) } else { None });
                }));
                if r.is_err() {
                    self.dead = true;
                    return vec![json!({"ev": "upgrade", "d": d, "out": "trap", "msg": last_panic()})];
                }
                let dd = if has { d } else { json!({"nop": true}) };
                vec![json!({"ev": "upgrade", "d": dd, "out": "ok", "post": self.project()})]
            }
            "send_tx" => vec![self.send_tx(cmd)],
            "offer" => {
                self.offers.push_back(cmd["initial"].clone());
                vec![]
            }
            "tick" => {
                self.now += cmd["dt"].as_i64().unwrap();
                self.set_time();
                vec![json!({"ev": "tick", "now": self.now})]
            }
            "push" => {
                // direct mode: insert without validation (any network)
                let b = cmd["b"].as_u64().unwrap() as usize;
                let block = ic_btc_types::Block::new(self.uni.blocks[&b].clone());
                let r = catch_unwind(AssertUnwindSafe(|| {
                    with_state_mut(|s| ic_btc_canister::unstable_blocks::push(&mut s.unstable_blocks, &s.utxos, block).is_ok())
                }));
                match r {
                    Err(_) => {
                        self.dead = true;
                        vec![json!({"ev": "push", "b": b, "out": "trap", "msg": last_panic()})]
                    }
                    Ok(ok) => vec![json!({"ev": "push", "b": b, "out": if ok { "ok" } else { "err" }, "post": self.project()})],
                }
            }
            "bulk_push" => {
                // direct mode: insert many blocks, one event (for long chains)
                let bs: Vec<usize> = cmd["bs"].as_array().unwrap().iter().map(|x| x.as_u64().unwrap() as usize).collect();
                let mut results = vec![];
                for b in &bs {
                    let block = ic_btc_types::Block::new(self.uni.blocks[b].clone());
                    let r = catch_unwind(AssertUnwindSafe(|| {
                        with_state_mut(|s| ic_btc_canister::unstable_blocks::push(&mut s.unstable_blocks, &s.utxos, block).is_ok())
                    }));
                    match r {
                        Err(_) => {
                            self.dead = true;
                            return vec![json!({"ev": "bulk_push", "bs": bs, "out": "trap", "msg": last_panic()})];
                        }
                        Ok(ok) => results.push(ok),
                    }
                }
                vec![json!({"ev": "bulk_push", "bs": bs, "oks": results, "out": "ok", "post": self.project()})]
            }
            "ingest" => {
                let budget = cmd["budget"].as_u64().unwrap_or(0);
                self.set_budget(budget);
                let r = catch_unwind(AssertUnwindSafe(|| with_state_mut(state::ingest_stable_blocks_into_utxoset)));
                self.clear_budget();
                match r {
                    Err(_) => {
                        self.dead = true;
                        vec![json!({"ev": "ingest", "budget": budget, "out": "trap", "msg": last_panic()})]
                    }
                    Ok(_) => vec![json!({"ev": "ingest", "budget": budget, "out": "ok", "post": self.project()})],
                }
            }
            other => panic!("unknown command {other}"),
        }
    }
}
