//! An independent, minimal parser for the consensus serialisation of a Bitcoin transaction
//! (BIP144 aware).  It accepts a byte string iff it is exactly one transaction with nothing
//! before or after it.  Deliberately written without the `bitcoin` crate's decoder.

struct Cur<'a> {
    b: &'a [u8],
    p: usize,
}

impl<'a> Cur<'a> {
    fn take(&mut self, n: usize) -> Option<&'a [u8]> {
        if self.b.len() - self.p < n {
            return None;
        }
        let s = &self.b[self.p..self.p + n];
        self.p += n;
        Some(s)
    }
    fn u8(&mut self) -> Option<u8> {
        self.take(1).map(|s| s[0])
    }
    /// CompactSize, minimal encodings only.
    fn varint(&mut self) -> Option<u64> {
        let f = self.u8()?;
        match f {
            0xfd => {
                let s = self.take(2)?;
                let v = u16::from_le_bytes([s[0], s[1]]) as u64;
                if v < 0xfd {
                    None
                } else {
                    Some(v)
                }
            }
            0xfe => {
                let s = self.take(4)?;
                let v = u32::from_le_bytes([s[0], s[1], s[2], s[3]]) as u64;
                if v <= 0xffff {
                    None
                } else {
                    Some(v)
                }
            }
            0xff => {
                let s = self.take(8)?;
                let mut a = [0u8; 8];
                a.copy_from_slice(s);
                let v = u64::from_le_bytes(a);
                if v <= 0xffff_ffff {
                    None
                } else {
                    Some(v)
                }
            }
            x => Some(x as u64),
        }
    }
    fn inputs(&mut self, n: u64) -> Option<()> {
        for _ in 0..n {
            self.take(36)?; // outpoint
            let l = self.varint()?;
            self.take(usize::try_from(l).ok()?)?; // script sig
            self.take(4)?; // sequence
        }
        Some(())
    }
    fn outputs(&mut self) -> Option<()> {
        let n = self.varint()?;
        for _ in 0..n {
            self.take(8)?; // value
            let l = self.varint()?;
            self.take(usize::try_from(l).ok()?)?; // script pubkey
        }
        Some(())
    }
}

fn parse(b: &[u8]) -> Option<()> {
    let mut c = Cur { b, p: 0 };
    c.take(4)?; // version
    let n_in = c.varint()?;
    if n_in == 0 {
        // extended (witness) serialisation: marker 0x00 was just read, flag must be 0x01
        if c.u8()? != 1 {
            return None;
        }
        let n = c.varint()?;
        c.inputs(n)?;
        c.outputs()?;
        let mut any = false;
        for _ in 0..n {
            let items = c.varint()?;
            if items > 0 {
                any = true;
            }
            for _ in 0..items {
                let l = c.varint()?;
                c.take(usize::try_from(l).ok()?)?;
            }
        }
        // the extended format is only allowed when some input carries a witness
        // (a transaction without inputs is always serialised in the extended format)
        if n > 0 && !any {
            return None;
        }
    } else {
        c.inputs(n_in)?;
        c.outputs()?;
    }
    c.take(4)?; // lock time
    if c.p == b.len() {
        Some(())
    } else {
        None
    }
}

pub fn is_exactly_one_transaction(b: &[u8]) -> bool {
    parse(b).is_some()
}
