//! C11: header chains in a harness-owned `HeaderStore`, candidates evaluated by the implementation.
use bitcoin::block::{Header, Version};
use bitcoin::hashes::Hash;
use bitcoin::{BlockHash, CompactTarget, Network, Target, TxMerkleNode};
use ic_btc_validation::{HeaderStore, HeaderValidator, ValidateHeaderError};
use serde_json::{json, Value};
use std::cell::RefCell;
use std::collections::HashMap;
use std::panic::{catch_unwind, AssertUnwindSafe};
use std::time::Duration;

pub struct Session {
    pub net: String,
    pub base: u32,
    pub headers: Vec<Header>,
    pub index: HashMap<BlockHash, usize>,
    pub real: Vec<Header>,
    pub real_pos: usize,
}

thread_local! {
    static SESSION: RefCell<Option<Session>> = const { RefCell::new(None) };
}

struct StoreRef<'a>(&'a Session);

impl HeaderStore for StoreRef<'_> {
    fn get_with_block_hash(&self, hash: &BlockHash) -> Option<Header> {
        self.0.index.get(hash).map(|i| self.0.headers[*i])
    }
    fn get_with_height(&self, height: u32) -> Option<Header> {
        if height < self.0.base {
            return None;
        }
        self.0.headers.get((height - self.0.base) as usize).copied()
    }
    fn height(&self) -> u32 {
        self.0.base + self.0.headers.len() as u32 - 1
    }
    fn get_initial_hash(&self) -> BlockHash {
        self.0.headers[0].block_hash()
    }
}

fn btc_net(net: &str) -> Network {
    match net {
        "mainnet" => Network::Bitcoin,
        "testnet" => Network::Testnet4,
        "regtest" => Network::Regtest,
        other => panic!("bad network {other}"),
    }
}

fn bits_of(e: u64, m: u64) -> CompactTarget {
    CompactTarget::from_consensus(((e as u32) << 24) | (m as u32 & 0x00ff_ffff))
}

fn em(bits: CompactTarget) -> (u32, u32) {
    let b = bits.to_consensus();
    (b >> 24, b & 0x00ff_ffff)
}

/// little-endian base-256 digits without most significant zeros
fn target_bytes(t: Target) -> Vec<u64> {
    let mut v: Vec<u64> = t.to_le_bytes().iter().map(|b| *b as u64).collect();
    while v.last() == Some(&0) {
        v.pop();
    }
    v
}

/// hash <= target, compared byte-wise (independent of `validate_pow`)
fn pow_ok(h: &Header) -> bool {
    let hash = h.block_hash().to_byte_array(); // little endian
    let target = Target::from_compact(h.bits).to_le_bytes();
    for i in (0..32).rev() {
        if hash[i] != target[i] {
            return hash[i] < target[i];
        }
    }
    true
}

fn push(s: &mut Session, h: Header) {
    s.index.insert(h.block_hash(), s.headers.len());
    s.headers.push(h);
}

fn new_header(prev: &Header, time: u32, bits: CompactTarget, salt: u32) -> Header {
    Header {
        version: Version::from_consensus(0x2000_0000),
        prev_blockhash: prev.block_hash(),
        merkle_root: TxMerkleNode::from_byte_array([salt as u8; 32]),
        time,
        bits,
        nonce: salt,
    }
}

fn load_real_headers() -> Vec<Header> {
    let repo = std::env::var("VERIF_REPO").unwrap_or_else(|_| "/repo".to_string());
    let text = std::fs::read_to_string(format!("{repo}/validation/tests/data/headers.csv")).unwrap_or_default();
    let mut v = vec![];
    for line in text.lines().skip(1) {
        let f: Vec<&str> = line.split(',').collect();
        if f.len() < 6 {
            continue;
        }
        let u = |s: &str| u32::from_str_radix(s, 16).unwrap();
        let h32 = |s: &str| -> [u8; 32] {
            let mut b = hex::decode(s).unwrap();
            b.reverse();
            let mut a = [0u8; 32];
            a.copy_from_slice(&b);
            a
        };
        v.push(Header {
            version: Version::from_consensus(u(f[0]) as i32),
            prev_blockhash: BlockHash::from_byte_array(h32(f[1])),
            merkle_root: TxMerkleNode::from_byte_array(h32(f[2])),
            time: u(f[3]),
            bits: CompactTarget::from_consensus(u(f[4])),
            nonce: u(f[5]),
        });
    }
    v
}

const MAINNET_HEADER_586656: &str = "00008020cff0e07ab39db0f31d4ded81ba2339173155b9c57839110000000000000000007a2d75dce5981ec421a54df706d3d407f66dc9170f1e0d6e48ed1e8a1cad7724e9ed365d083a1f17bc43b10a";

fn evaluate(s: &Session, cand: &Header, now: u64, full: bool) -> Value {
    let store = StoreRef(s);
    let prev = *s.headers.last().unwrap();
    let prev_height = s.base + s.headers.len() as u32 - 1;
    let v = HeaderValidator::new(store, btc_net(&s.net));
    let req = catch_unwind(AssertUnwindSafe(|| v.verif_required_target(&prev, prev_height, cand.time)));
    let time = catch_unwind(AssertUnwindSafe(|| v.verif_is_timestamp_valid(cand, Duration::from_secs(now))));
    let verdict = if full {
        match catch_unwind(AssertUnwindSafe(|| v.validate_header(cand, Duration::from_secs(now)))) {
            Err(_) => "trap".to_string(),
            Ok(Ok(())) => "ok".to_string(),
            Ok(Err(e)) => match e {
                ValidateHeaderError::HeaderIsOld => "HeaderIsOld".into(),
                ValidateHeaderError::HeaderIsTooFarInFuture { .. } => "HeaderIsTooFarInFuture".into(),
                ValidateHeaderError::InvalidPoWForHeaderTarget => "InvalidPoWForHeaderTarget".into(),
                ValidateHeaderError::InvalidPoWForComputedTarget => "InvalidPoWForComputedTarget".into(),
                ValidateHeaderError::TargetDifficultyAboveMax => "TargetDifficultyAboveMax".into(),
                ValidateHeaderError::PrevHeaderNotFound => "PrevHeaderNotFound".into(),
            },
        }
    } else {
        "none".to_string()
    };
    json!({
        "reqBytes": match req { Ok(t) => json!(target_bytes(t)), Err(_) => json!("trap") },
        "time": match time {
            Err(_) => "trap",
            Ok(Ok(())) => "ok",
            Ok(Err(ValidateHeaderError::HeaderIsOld)) => "old",
            Ok(Err(ValidateHeaderError::HeaderIsTooFarInFuture { .. })) => "future",
            Ok(Err(_)) => "other",
        },
        "verdict": verdict,
    })
}

pub fn run(input: &Value) -> Vec<Value> {
    SESSION.with(|cell| {
        let mut guard = cell.borrow_mut();
        match input["fn"].as_str().unwrap() {
            "hdr_reset" => {
                let net = input["net"].as_str().unwrap().to_string();
                let (first, base) = if input["real"].as_bool().unwrap_or(false) {
                    let h: Header = bitcoin::consensus::deserialize(&hex::decode(MAINNET_HEADER_586656).unwrap()).unwrap();
                    (h, 586_656u32)
                } else {
                    let mut g = bitcoin::blockdata::constants::genesis_block(btc_net(&net)).header;
                    if let (Some(e), Some(m)) = (input["e"].as_u64(), input["m"].as_u64()) {
                        g.bits = bits_of(e, m);
                    }
                    if let Some(t) = input["t"].as_u64() {
                        g.time = t as u32;
                    }
                    (g, input["height"].as_u64().unwrap_or(0) as u32)
                };
                let mut s = Session { net: net.clone(), base, headers: vec![], index: HashMap::new(), real: load_real_headers(), real_pos: 0 };
                push(&mut s, first);
                let (e, m) = em(first.bits);
                *guard = Some(s);
                vec![json!({"fn": "hdr_reset", "net": net, "height": base, "t": first.time, "e": e, "m": m})]
            }
            "hdr_append" => {
                let s = guard.as_mut().expect("session");
                let prev = *s.headers.last().unwrap();
                let t = prev.time as i64 + input["dt"].as_i64().unwrap_or(600);
                let bits = match (input["e"].as_u64(), input["m"].as_u64()) {
                    (Some(e), Some(m)) => bits_of(e, m),
                    _ => prev.bits,
                };
                let h = new_header(&prev, t as u32, bits, s.headers.len() as u32);
                push(s, h);
                let (e, m) = em(bits);
                vec![json!({"fn": "hdr_append", "t": h.time, "e": e, "m": m})]
            }
            "hdr_bulk" => {
                let s = guard.as_mut().expect("session");
                let n = input["n"].as_u64().unwrap();
                let dt = input["dt"].as_u64().unwrap_or(600) as u32;
                let prev0 = *s.headers.last().unwrap();
                let bits = match (input["e"].as_u64(), input["m"].as_u64()) {
                    (Some(e), Some(m)) => bits_of(e, m),
                    _ => prev0.bits,
                };
                let t0 = prev0.time + dt;
                for i in 0..n {
                    let prev = *s.headers.last().unwrap();
                    let h = new_header(&prev, t0 + (i as u32) * dt, bits, s.headers.len() as u32);
                    push(s, h);
                }
                let (e, m) = em(bits);
                vec![json!({"fn": "hdr_bulk", "n": n, "t0": t0, "dt": dt, "e": e, "m": m})]
            }
            "hdr_candidate" => {
                let s = guard.as_mut().expect("session");
                let prev = *s.headers.last().unwrap();
                let t = (prev.time as i64 + input["dt"].as_i64().unwrap_or(600)) as u32;
                let bits = match (input["e"].as_u64(), input["m"].as_u64()) {
                    (Some(e), Some(m)) => bits_of(e, m),
                    _ => prev.bits,
                };
                let mut h = new_header(&prev, t, bits, 7);
                let want_pow = input["pow"].as_str().unwrap_or("none");
                let mut full = false;
                if want_pow == "valid" || want_pow == "invalid" {
                    // only feasible for easy targets (regtest)
                    let want = want_pow == "valid";
                    for nonce in 0..2_000_000u32 {
                        h.nonce = nonce;
                        if pow_ok(&h) == want {
                            full = true;
                            break;
                        }
                    }
                }
                let now = (prev.time as i64 + input["nowdt"].as_i64().unwrap_or(100_000)) as u64;
                let out = evaluate(s, &h, now, full);
                let (e, m) = em(bits);
                let height = s.base + s.headers.len() as u32;
                let rec = json!({"fn": "hdr_candidate", "height": height, "t": t, "e": e, "m": m, "now": now, "powOK": pow_ok(&h),
                                 "case": input["case"], "out": out});
                if input["accept"].as_bool().unwrap_or(false) {
                    push(s, h);
                    let (e, m) = em(bits);
                    return vec![rec, json!({"fn": "hdr_append", "t": h.time, "e": e, "m": m})];
                }
                vec![rec]
            }
            "hdr_real" => {
                // the next `n` real mainnet headers: each is judged as a candidate (optionally perturbed
                // copies first) and then appended
                let s = guard.as_mut().expect("session");
                let n = input["n"].as_u64().unwrap_or(1) as usize;
                let perturb = input["perturb"].as_bool().unwrap_or(false);
                let mut out = vec![];
                for _ in 0..n {
                    if s.real_pos >= s.real.len() {
                        break;
                    }
                    let h = s.real[s.real_pos];
                    s.real_pos += 1;
                    let now = h.time as u64 + 3000;
                    let height = s.base + s.headers.len() as u32;
                    let mut cands = vec![("real", h)];
                    if perturb {
                        let mut a = h;
                        a.nonce = a.nonce.wrapping_add(1);
                        cands.push(("nonce", a));
                        let mut b = h;
                        b.bits = CompactTarget::from_consensus(b.bits.to_consensus() + 1);
                        cands.push(("bits+1", b));
                        let mut c = h;
                        c.time = c.time.wrapping_sub(20000);
                        cands.push(("time-", c));
                        let mut d = h;
                        d.bits = CompactTarget::from_consensus(0x1d00ffff);
                        cands.push(("limitbits", d));
                    }
                    for (case, c) in cands {
                        let (e, m) = em(c.bits);
                        let o = evaluate(s, &c, now, true);
                        out.push(json!({"fn": "hdr_candidate", "height": height, "t": c.time, "e": e, "m": m, "now": now,
                                        "powOK": pow_ok(&c), "case": case, "out": o}));
                    }
                    push(s, h);
                    let (e, m) = em(h.bits);
                    out.push(json!({"fn": "hdr_append", "t": h.time, "e": e, "m": m}));
                }
                out
            }
            other => panic!("unknown header function {other}"),
        }
    })
}
