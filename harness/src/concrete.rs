//! Concretisation: abstract universe (small ids) -> real Bitcoin objects, and back.
use bitcoin::absolute::LockTime;
use bitcoin::block::{Header, Version as BlockVersion};
use bitcoin::blockdata::opcodes::all::{OP_CHECKSIG, OP_RETURN};
use bitcoin::blockdata::script::{Builder, PushBytesBuf};
use bitcoin::consensus::Encodable;
use bitcoin::hashes::{sha256, Hash};
use bitcoin::transaction::Version as TxVersion;
use bitcoin::{
    Address as BtcAddress, Amount, Block as BtcBlock, BlockHash as BtcBlockHash, CompactTarget,
    Network as BtcNetwork, OutPoint as BtcOutPoint, PubkeyHash, ScriptBuf, ScriptHash, Sequence,
    Transaction, TxIn, TxMerkleNode, TxOut, Txid, WPubkeyHash, WScriptHash, Witness,
    WitnessProgram, WitnessVersion,
};
use ic_btc_interface::Network;
use serde::Deserialize;
use std::collections::BTreeMap;

#[derive(Deserialize, Clone, Debug)]
pub struct AddrSpec {
    pub id: i64,
    pub kind: String,
    #[serde(default)]
    pub of: i64,
}

#[derive(Deserialize, Clone, Debug)]
pub struct OutSpec {
    pub a: i64,
    pub v: u64,
    /// script flavour for outputs without an address
    #[serde(default)]
    pub s: String,
}

#[derive(Deserialize, Clone, Debug)]
pub struct TxSpec {
    pub id: usize,
    pub ins: Vec<(usize, usize)>,
    pub outs: Vec<OutSpec>,
    #[serde(default)]
    pub w: bool,
}

#[derive(Deserialize, Clone, Debug)]
pub struct BlockSpec {
    pub id: usize,
    pub parent: usize,
    pub diff: u128,
    pub time: i64,
    pub txs: Vec<usize>,
}

pub fn btc_network(n: Network) -> BtcNetwork {
    match n {
        Network::Mainnet => BtcNetwork::Bitcoin,
        Network::Testnet => BtcNetwork::Testnet4,
        Network::Regtest => BtcNetwork::Regtest,
    }
}

fn seeded(seed: u64, tag: &str, id: i64) -> [u8; 32] {
    let mut data = vec![];
    data.extend_from_slice(&seed.to_le_bytes());
    data.extend_from_slice(tag.as_bytes());
    data.extend_from_slice(&id.to_le_bytes());
    sha256::Hash::hash(&data).to_byte_array()
}

const BECH32_CHARSET: &str = "qpzry9x8gf2tvdw0s3jn54khce6mua7l";

/// Builds the P2WSH script whose address string starts with the given P2WPKH address string.
fn prefix_p2wsh_script(p2wpkh_addr: &str) -> ScriptBuf {
    // chars after the separator '1': version char, 32 program chars, 6 checksum chars
    let pos = p2wpkh_addr.rfind('1').expect("bech32 separator");
    let data = &p2wpkh_addr[pos + 1..];
    assert_eq!(data.len(), 39, "p2wpkh data part must have 39 chars");
    // program groups of the P2WSH: the 38 chars after the version char, then 14 'q' (value 0)
    let mut groups: Vec<u8> = data[1..]
        .chars()
        .map(|c| BECH32_CHARSET.find(c).expect("bech32 char") as u8)
        .collect();
    while groups.len() < 52 {
        groups.push(0);
    }
    // 52 groups of 5 bits = 260 bits; the last 4 bits are padding and are zero here.
    let mut bits: Vec<bool> = vec![];
    for g in groups {
        for i in (0..5).rev() {
            bits.push((g >> i) & 1 == 1);
        }
    }
    let mut program = vec![0u8; 32];
    for (i, b) in bits.iter().take(256).enumerate() {
        if *b {
            program[i / 8] |= 1 << (7 - (i % 8));
        }
    }
    let wp = WitnessProgram::new(WitnessVersion::V0, &program).unwrap();
    ScriptBuf::new_witness_program(&wp)
}

pub struct Universe {
    pub network: Network,
    pub seed: u64,
    pub addr_scripts: BTreeMap<i64, ScriptBuf>,
    pub addr_strings: BTreeMap<i64, String>,
    pub string_to_addr: BTreeMap<String, i64>,
    pub tx_specs: BTreeMap<usize, TxSpec>,
    pub txs: BTreeMap<usize, Transaction>,
    pub txid_to_id: BTreeMap<Txid, usize>,
    pub block_specs: BTreeMap<usize, BlockSpec>,
    pub blocks: BTreeMap<usize, BtcBlock>,
    pub hash_to_id: BTreeMap<BtcBlockHash, usize>,
    pub genesis_time: u32,
}

impl Universe {
    pub fn new(network: Network, seed: u64) -> Self {
        let genesis = bitcoin::blockdata::constants::genesis_block(btc_network(network));
        let mut u = Universe {
            network,
            seed,
            addr_scripts: BTreeMap::new(),
            addr_strings: BTreeMap::new(),
            string_to_addr: BTreeMap::new(),
            tx_specs: BTreeMap::new(),
            txs: BTreeMap::new(),
            txid_to_id: BTreeMap::new(),
            block_specs: BTreeMap::new(),
            blocks: BTreeMap::new(),
            hash_to_id: BTreeMap::new(),
            genesis_time: genesis.header.time,
        };
        // block 1 / transaction 1 are the real genesis block and its coinbase
        let cb = genesis.txdata[0].clone();
        u.txid_to_id.insert(cb.compute_txid(), 1);
        u.tx_specs.insert(
            1,
            TxSpec {
                id: 1,
                ins: vec![],
                outs: vec![OutSpec {
                    a: 0,
                    v: 0,
                    s: "genesis".into(),
                }],
                w: false,
            },
        );
        u.txs.insert(1, cb);
        u.hash_to_id.insert(genesis.block_hash(), 1);
        u.block_specs.insert(
            1,
            BlockSpec {
                id: 1,
                parent: 0,
                diff: 1,
                time: 0,
                txs: vec![1],
            },
        );
        u.blocks.insert(1, genesis);
        u
    }

    pub fn add_addr(&mut self, spec: &AddrSpec) {
        let net = btc_network(self.network);
        let h = seeded(self.seed, "addr", spec.id);
        let script = match spec.kind.as_str() {
            "p2pkh" => ScriptBuf::new_p2pkh(&PubkeyHash::from_slice(&h[..20]).unwrap()),
            "p2sh" => ScriptBuf::new_p2sh(&ScriptHash::from_slice(&h[..20]).unwrap()),
            "p2wpkh" => ScriptBuf::new_p2wpkh(&WPubkeyHash::from_slice(&h[..20]).unwrap()),
            "p2wsh" => ScriptBuf::new_p2wsh(&WScriptHash::from_slice(&h).unwrap()),
            "p2tr" => {
                let wp = WitnessProgram::new(WitnessVersion::V1, &h).unwrap();
                ScriptBuf::new_witness_program(&wp)
            }
            "prefix_of" => {
                let base = self
                    .addr_strings
                    .get(&spec.of)
                    .expect("prefix_of refers to an earlier p2wpkh address")
                    .clone();
                prefix_p2wsh_script(&base)
            }
            other => panic!("unknown address kind {other}"),
        };
        let s = BtcAddress::from_script(&script, net)
            .expect("address script")
            .to_string();
        if spec.kind == "prefix_of" {
            let base = &self.addr_strings[&spec.of];
            assert!(s.starts_with(base.as_str()) && s != *base, "prefix construction failed: {s} vs {base}");
        }
        self.string_to_addr.insert(s.clone(), spec.id);
        self.addr_strings.insert(spec.id, s);
        self.addr_scripts.insert(spec.id, script);
    }

    fn noaddr_script(&self, flavour: &str, salt: i64) -> ScriptBuf {
        let h = seeded(self.seed, "noaddr", salt);
        match flavour {
            // bare pay-to-pubkey: 33-byte push + OP_CHECKSIG (35 bytes)
            "" | "p2pk" => {
                let mut key = vec![0x02u8];
                key.extend_from_slice(&h);
                Builder::new()
                    .push_slice(PushBytesBuf::try_from(key).unwrap())
                    .push_opcode(OP_CHECKSIG)
                    .into_script()
            }
            // non-standard scripts of a given total length (made of pushes of junk)
            f if f.starts_with("nonstd") => {
                let len: usize = f[6..].parse().expect("nonstdN");
                // OP_1 (0x51) repeated: always a valid script, never an address
                ScriptBuf::from_bytes(vec![0x51u8; len])
            }
            other => panic!("unknown script flavour {other}"),
        }
    }

    pub fn script_for_output(&self, o: &OutSpec, salt: i64) -> ScriptBuf {
        if o.a == -1 {
            let h = seeded(self.seed, "opret", salt);
            Builder::new()
                .push_opcode(OP_RETURN)
                .push_slice(PushBytesBuf::try_from(h[..8].to_vec()).unwrap())
                .into_script()
        } else if o.a == 0 {
            self.noaddr_script(&o.s, salt)
        } else {
            self.addr_scripts
                .get(&o.a)
                .unwrap_or_else(|| panic!("unknown address id {}", o.a))
                .clone()
        }
    }

    pub fn add_tx(&mut self, spec: &TxSpec) {
        let input = if spec.ins.is_empty() {
            // coinbase: one null input, unique script-sig
            let mut tag = vec![0x03u8];
            tag.extend_from_slice(&(spec.id as u32).to_le_bytes()[..3]);
            tag.extend_from_slice(&seeded(self.seed, "cb", spec.id as i64)[..4]);
            vec![TxIn {
                previous_output: BtcOutPoint::null(),
                script_sig: ScriptBuf::from_bytes(tag),
                sequence: Sequence::MAX,
                witness: Witness::new(),
            }]
        } else {
            spec.ins
                .iter()
                .enumerate()
                .map(|(k, (t, j))| {
                    let prev = self.txs.get(t).unwrap_or_else(|| panic!("input refers to unknown tx {t}"));
                    let mut witness = Witness::new();
                    let script_sig = if spec.w {
                        witness.push(seeded(self.seed, "wit", (spec.id * 64 + k) as i64).to_vec());
                        witness.push(vec![0x02u8; 33]);
                        ScriptBuf::new()
                    } else {
                        ScriptBuf::from_bytes(seeded(self.seed, "sig", (spec.id * 64 + k) as i64)[..20].to_vec())
                    };
                    TxIn {
                        previous_output: BtcOutPoint {
                            txid: prev.compute_txid(),
                            vout: (*j as u32) - 1,
                        },
                        script_sig,
                        sequence: Sequence::MAX,
                        witness,
                    }
                })
                .collect()
        };
        let output = spec
            .outs
            .iter()
            .enumerate()
            .map(|(k, o)| TxOut {
                value: Amount::from_sat(o.v),
                script_pubkey: self.script_for_output(o, (spec.id * 64 + k) as i64),
            })
            .collect();
        let tx = Transaction {
            version: TxVersion::TWO,
            lock_time: LockTime::ZERO,
            input,
            output,
        };
        self.txid_to_id.insert(tx.compute_txid(), spec.id);
        self.txs.insert(spec.id, tx);
        self.tx_specs.insert(spec.id, spec.clone());
    }

    pub fn pow_limit_bits(&self) -> u32 {
        match self.network {
            Network::Regtest => 0x207fffff,
            _ => 0x1d00ffff,
        }
    }

    pub fn header_time(&self, rel: i64) -> u32 {
        (self.genesis_time as i64 + rel) as u32
    }

    /// Builds block `spec` on top of its (already built) parent. On regtest the nonce is mined.
    pub fn add_block(&mut self, spec: &BlockSpec) {
        let parent = self.blocks.get(&spec.parent).unwrap_or_else(|| panic!("unknown parent {}", spec.parent));
        let txdata: Vec<Transaction> = spec.txs.iter().map(|t| self.txs[t].clone()).collect();
        let mut block = BtcBlock {
            header: Header {
                version: BlockVersion::from_consensus(0x2000_0000),
                prev_blockhash: parent.block_hash(),
                merkle_root: TxMerkleNode::all_zeros(),
                time: self.header_time(spec.time),
                bits: CompactTarget::from_consensus(self.pow_limit_bits()),
                nonce: 0,
            },
            txdata,
        };
        block.header.merkle_root = block.compute_merkle_root().expect("merkle root");
        if self.network == Network::Regtest {
            mine(&mut block.header, true);
        } else {
            // cannot be mined; make the hash unique through the nonce
            block.header.nonce = spec.id as u32;
        }
        let hash = block.block_hash();
        ic_btc_types::verif_hooks::set_mock_difficulty(
            ic_btc_types::BlockHash::from(hash),
            spec.diff,
        );
        self.hash_to_id.insert(hash, spec.id);
        self.blocks.insert(spec.id, block);
        self.block_specs.insert(spec.id, spec.clone());
    }

    pub fn block_bytes(&self, id: usize) -> Vec<u8> {
        let mut v = vec![];
        self.blocks[&id].consensus_encode(&mut v).unwrap();
        v
    }

    pub fn header_bytes(&self, id: usize) -> Vec<u8> {
        let mut v = vec![];
        self.blocks[&id].header.consensus_encode(&mut v).unwrap();
        v
    }

    pub fn block_id_of_hash(&self, hash: &[u8]) -> usize {
        if hash.len() != 32 {
            return 0;
        }
        let h = BtcBlockHash::from_slice(hash).unwrap();
        self.hash_to_id.get(&h).copied().unwrap_or(0)
    }

    pub fn tx_id_of(&self, txid_bytes: &[u8]) -> usize {
        if txid_bytes.len() != 32 {
            return 0;
        }
        let t = Txid::from_slice(txid_bytes).unwrap();
        self.txid_to_id.get(&t).copied().unwrap_or(0)
    }

    /// A defective variant of block `id` (byte level), for C10.
    pub fn defective_block(&self, id: usize, class: &str) -> Vec<u8> {
        let good = self.block_bytes(id);
        let mut block = self.blocks[&id].clone();
        match class {
            "valid" => good,
            "extended" => {
                let mut v = good;
                v.extend_from_slice(&[0xde, 0xad, 0xbe, 0xef]);
                v
            }
            "truncated" => good[..good.len() - 7].to_vec(),
            "empty" => vec![],
            "garbage" => {
                let mut v = vec![];
                for i in 0..5 {
                    v.extend_from_slice(&seeded(self.seed, "garbage", (id * 8 + i) as i64));
                }
                // make sure it does not decode: claim an enormous transaction count
                v[80] = 0xff;
                v
            }
            "badpow" => {
                mine(&mut block.header, false);
                enc(&block)
            }
            "badmerkle" => {
                let mut root = block.header.merkle_root.to_byte_array();
                root[0] ^= 1;
                block.header.merkle_root = TxMerkleNode::from_byte_array(root);
                mine(&mut block.header, true);
                enc(&block)
            }
            "duptx" => {
                // CVE-2012-2459: repeat the last transaction of an odd-length list (root preserved)
                if block.txdata.len() % 2 == 1 && block.txdata.len() > 1 {
                    let last = block.txdata.last().unwrap().clone();
                    block.txdata.push(last);
                } else {
                    // duplicate the last two of an even-length level: [.., a, b] -> [.., a, b, a, b]
                    // only root-preserving when the level above is odd; otherwise plain duplication
                    let n = block.txdata.len();
                    let last = block.txdata[n - 1].clone();
                    block.txdata.push(last);
                    block.header.merkle_root = block.compute_merkle_root().unwrap();
                    mine(&mut block.header, true);
                }
                enc(&block)
            }
            "nocoinbase" => {
                // replace the coinbase by a copy of an ordinary spending transaction shape
                let mut tx = block.txdata[0].clone();
                tx.input[0].previous_output = BtcOutPoint {
                    txid: Txid::from_byte_array(seeded(self.seed, "nocb", id as i64)),
                    vout: 0,
                };
                block.txdata[0] = tx;
                block.header.merkle_root = block.compute_merkle_root().unwrap();
                mine(&mut block.header, true);
                enc(&block)
            }
            "notx" => {
                block.txdata.clear();
                mine(&mut block.header, true);
                enc(&block)
            }
            "badbits" => {
                block.header.bits = CompactTarget::from_consensus(0x207ffffe);
                mine(&mut block.header, true);
                enc(&block)
            }
            other => panic!("unknown block defect class {other}"),
        }
    }

    /// A defective variant of the header of block `id`.
    pub fn defective_header(&self, id: usize, class: &str) -> Vec<u8> {
        let good = self.header_bytes(id);
        let mut header = self.blocks[&id].header;
        match class {
            "valid" => good,
            "long" => {
                let mut v = good;
                v.push(0x99);
                v
            }
            "short" => good[..79].to_vec(),
            "empty" => vec![],
            "garbage80" => {
                let mut v = vec![];
                for i in 0..3 {
                    v.extend_from_slice(&seeded(self.seed, "garbagehdr", (id * 8 + i) as i64));
                }
                v.truncate(80);
                v
            }
            "badpow" => {
                mine(&mut header, false);
                let mut v = vec![];
                header.consensus_encode(&mut v).unwrap();
                v
            }
            "badbits" => {
                header.bits = CompactTarget::from_consensus(0x207ffffe);
                mine(&mut header, true);
                let mut v = vec![];
                header.consensus_encode(&mut v).unwrap();
                v
            }
            other => panic!("unknown header defect class {other}"),
        }
    }
}

fn enc(b: &BtcBlock) -> Vec<u8> {
    let mut v = vec![];
    b.consensus_encode(&mut v).unwrap();
    v
}

/// Finds a nonce for which the header's proof of work is valid (`want = true`) or invalid.
pub fn mine(header: &mut Header, want: bool) {
    let target = header.target();
    for nonce in 0..u32::MAX {
        header.nonce = nonce;
        let ok = header.validate_pow(target).is_ok();
        if ok == want {
            return;
        }
    }
    panic!("could not mine header");
}
