fn main() { println!("ok"); }
