//! Verification harness for dfinity/bitcoin-canister.
//!
//!   verif-harness run <scenarios.ndjson> <trace-out.ndjson>
//!       executes every scenario (one JSON object per line) against the real canister and writes
//!       the recorded events; each scenario starts with a `universe` event.
mod concrete;
mod decide;
mod exec;
mod headers;
mod txparse;

use std::io::{BufRead, Write};

fn main() {
    let args: Vec<String> = std::env::args().collect();
    if args.len() < 2 {
        eprintln!("usage: verif-harness run <scenarios.ndjson> <trace-out.ndjson>");
        std::process::exit(2);
    }
    match args[1].as_str() {
        "run" => {
            exec::install_panic_hook();
            let input = std::fs::File::open(&args[2]).expect("open scenarios");
            let mut out = std::io::BufWriter::new(std::fs::File::create(&args[3]).expect("create trace"));
            let mut n = 0;
            for line in std::io::BufReader::new(input).lines() {
                let line = line.unwrap();
                if line.trim().is_empty() {
                    continue;
                }
                let sc: exec::Scenario = serde_json::from_str(&line).expect("scenario json");
                let mut e = exec::Exec::new(&sc);
                // a panic of the harness itself (e.g. the code under test did something the driver
                // cannot even represent) ends the scenario with an `anomaly` event instead of the batch
                let r = std::panic::catch_unwind(std::panic::AssertUnwindSafe(|| e.run(&sc.cmds)));
                if r.is_err() {
                    e.events.push(serde_json::json!({"ev": "anomaly", "msg": exec::last_panic()}));
                }
                let mut h = e.header_event();
                h["name"] = serde_json::json!(sc.name);
                writeln!(out, "{}", h).unwrap();
                for ev in &e.events {
                    writeln!(out, "{}", ev).unwrap();
                }
                n += 1;
            }
            out.flush().unwrap();
            eprintln!("executed {n} scenarios");
        }
        "decide" => {
            exec::install_panic_hook();
            let input = std::fs::File::open(&args[2]).expect("open inputs");
            let mut out = std::io::BufWriter::new(std::fs::File::create(&args[3]).expect("create output"));
            let mut n = 0;
            for line in std::io::BufReader::new(input).lines() {
                let line = line.unwrap();
                if line.trim().is_empty() {
                    continue;
                }
                let v: serde_json::Value = serde_json::from_str(&line).expect("input json");
                for rec in decide::run(&v) {
                    writeln!(out, "{}", rec).unwrap();
                    n += 1;
                }
            }
            out.flush().unwrap();
            eprintln!("wrote {n} decision records");
        }
        other => {
            eprintln!("unknown subcommand {other}");
            std::process::exit(2);
        }
    }
}
