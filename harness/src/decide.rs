//! Decision-procedure harness (C16 part 2, C17, C18, C12, C11): executes pure functions of the
//! implementation on given inputs and records `[fn, in, out]` for validation by TraceDecision.tla.
use crate::exec::block_on;
use ic_management_canister_types::{HttpHeader, HttpRequestResult, TransformArgs};
use serde_json::{json, Value};
use std::panic::{catch_unwind, AssertUnwindSafe};

/// Little-endian base-10000 digits (the representation of BigNat.tla).
pub fn digits(mut x: u128) -> Vec<u64> {
    let mut v = vec![];
    while x > 0 {
        v.push((x % 10000) as u64);
        x /= 10000;
    }
    v
}

// ------------------------------------------------------------------------------------------ C16
fn fee_cover() -> Vec<Value> {
    use ic_btc_interface::*;
    let mut out = vec![];
    for (net, nin) in [
        (Network::Mainnet, NetworkInRequest::Mainnet),
        (Network::Mainnet, NetworkInRequest::mainnet),
        (Network::Testnet, NetworkInRequest::Testnet),
        (Network::Testnet, NetworkInRequest::testnet),
        (Network::Regtest, NetworkInRequest::Regtest),
        (Network::Regtest, NetworkInRequest::regtest),
    ] {
        // the canister's default fee table for this network
        ic_btc_canister::memory::set_memory(Default::default());
        ic_btc_canister::init(InitConfig {
            network: Some(net),
            ..Default::default()
        });
        let f = ic_btc_canister::get_config().fees;
        let addr = "x".to_string();
        let rec = |ep: &str, client: u128, required: u128| {
            json!({"fn": "fee_cover", "net": net.to_string(), "variant": format!("{:?}", nin), "ep": ep,
                   "client": digits(client), "required": digits(required)})
        };
        out.push(rec(
            "get_utxos",
            ic_cdk_bitcoin_canister::cost_get_utxos(&GetUtxosRequest { address: addr.clone(), network: nin, filter: None }),
            f.get_utxos_maximum,
        ));
        out.push(rec(
            "get_balance",
            ic_cdk_bitcoin_canister::cost_get_balance(&GetBalanceRequest { address: addr.clone(), network: nin, min_confirmations: None }),
            f.get_balance_maximum,
        ));
        out.push(rec(
            "get_current_fee_percentiles",
            ic_cdk_bitcoin_canister::cost_get_current_fee_percentiles(&GetCurrentFeePercentilesRequest { network: nin }),
            f.get_current_fee_percentiles_maximum,
        ));
        out.push(rec(
            "get_block_headers",
            ic_cdk_bitcoin_canister::cost_get_block_headers(&GetBlockHeadersRequest { start_height: 0, end_height: None, network: nin }),
            f.get_block_headers_maximum,
        ));
        for len in [0usize, 1, 60, 250, 1000, 100_000, 4_000_000] {
            let client = ic_cdk_bitcoin_canister::cost_send_transaction(&SendTransactionRequest { transaction: vec![0u8; len], network: nin });
            out.push(json!({"fn": "fee_cover_send", "net": net.to_string(), "variant": format!("{:?}", nin), "len": len,
                            "client": digits(client), "sb": digits(f.send_transaction_base), "sp": digits(f.send_transaction_per_byte)}));
        }
    }
    out
}

// ------------------------------------------------------------------------------------------ C17 / C18
/// provider name (as stored / configured) -> endpoint name (as in verif_hooks::endpoints)
fn endpoint_of_provider(p: &str) -> &'static str {
    match p {
        "bitcoin_api_bitcore_io_mainnet" => "bitcoin_mainnet_api_bitcore_io",
        "bitcoin_api_blockchair_com_mainnet" => "bitcoin_mainnet_api_blockchair_com",
        "bitcoin_api_blockcypher_com_mainnet" => "bitcoin_mainnet_api_blockcypher_com",
        "bitcoin_blockchain_info_mainnet" => "bitcoin_mainnet_blockchain_info",
        "bitcoin_blockstream_info_mainnet" => "bitcoin_mainnet_blockstream_info",
        "bitcoin_mempool_mainnet" => "bitcoin_mainnet_mempool",
        "bitcoin_mempool_testnet" => "bitcoin_testnet_mempool",
        "dogecoin_api_bitcore_io_mainnet" => "dogecoin_mainnet_api_bitcore_io",
        "dogecoin_api_blockchair_com_mainnet" => "dogecoin_mainnet_api_blockchair_com",
        "dogecoin_api_blockcypher_com_mainnet" => "dogecoin_mainnet_api_blockcypher_com",
        "dogecoin_psy_protocol_mainnet" => "dogecoin_mainnet_psy_protocol",
        other => panic!("unknown provider {other}"),
    }
}

/// How each endpoint presents a height: "json:<template with H>" or "text".
pub fn endpoint_format(endpoint: &str) -> &'static str {
    match endpoint {
        "bitcoin_mainnet_api_bitcore_io" | "dogecoin_mainnet_api_bitcore_io" => "[{\"chain\":\"X\",\"height\":H,\"hash\":\"00\"}]",
        "bitcoin_mainnet_api_blockchair_com" | "dogecoin_mainnet_api_blockchair_com" => {
            "{\"data\":{\"blocks\":1,\"best_block_height\":H,\"best_block_hash\":\"00\"},\"context\":{\"code\":200}}"
        }
        "bitcoin_mainnet_api_blockcypher_com" | "dogecoin_mainnet_api_blockcypher_com" => "{\"name\":\"X.main\",\"height\":H,\"hash\":\"00\"}",
        _ => "H",
    }
}

fn watchdog_rounds(input: &Value) -> Value {
    let target = input["target"].as_str().unwrap();
    watchdog::verif_hooks::init(target);
    let (min, behind, ahead, explorers) = watchdog::verif_hooks::target_config(target);
    let eps = watchdog::verif_hooks::endpoints();
    let base = input["base"].as_i64().unwrap_or(800000);
    // heights are given relative to the target's thresholds: [behind factor, ahead factor, constant]
    let rel = |v: &Value| -> i64 {
        match v.as_array() {
            Some(a) => base + a[0].as_i64().unwrap() * behind as i64 + a[1].as_i64().unwrap() * ahead as i64 + a[2].as_i64().unwrap(),
            None => v.as_i64().unwrap_or(-1),
        }
    };
    let mut rounds_out = vec![];
    for round in input["rounds"].as_array().unwrap() {
        let canister = if round["canister"].is_null() { -1 } else { rel(&round["canister"]) };
        let results = round["results"].as_array().unwrap();
        // results[i] is the outcome for the explorer that `perm[i]` names (order independence)
        let mut logged = vec![];
        for (i, prov) in explorers.iter().enumerate() {
            let r = &results[i % results.len()];
            let ep_name = endpoint_of_provider(prov);
            let (_n, request, _f) = eps.iter().find(|(n, _, _)| *n == ep_name).expect("endpoint");
            let kind = r["k"].as_str().unwrap();
            let h = if r.get("rel").is_some() { rel(&r["rel"]).max(0) as u64 } else { r["h"].as_u64().unwrap_or(0) };
            let fmt = endpoint_format(ep_name);
            let body_ok = fmt.replace('H', &h.to_string());
            let resp = |status: u64, body: &str| HttpRequestResult {
                status: candid::Nat::from(status),
                headers: vec![HttpHeader { name: "date".into(), value: format!("round {}", rounds_out.len()) }],
                body: body.as_bytes().to_vec(),
            };
            let mut height: i64 = -1;
            match kind {
                "ok" => {
                    height = h as i64;
                    ic_http::mock::mock(request.clone(), resp(200, &body_ok));
                }
                "http500" => ic_http::mock::mock(request.clone(), resp(500, &body_ok)),
                "http404" => ic_http::mock::mock(request.clone(), resp(404, "Not found")),
                "badjson" => ic_http::mock::mock(request.clone(), resp(200, "{\"height\": ")),
                "nofield" => ic_http::mock::mock(request.clone(), resp(200, if fmt == "H" { "not a number" } else { "{\"other\":1}" })),
                "negative" => ic_http::mock::mock(request.clone(), resp(200, &fmt.replace('H', "-5"))),
                "float" => ic_http::mock::mock(request.clone(), resp(200, &fmt.replace('H', "812345.5"))),
                "string" => ic_http::mock::mock(request.clone(), resp(200, &fmt.replace('H', "\"812345\""))),
                "empty" => ic_http::mock::mock(request.clone(), resp(200, "")),
                "toolarge" => ic_http::mock::mock(request.clone(), resp(200, &" ".repeat(5000))),
                "reject" => ic_http::mock::mock_error(request.clone(), (ic_cdk::call::RejectCode::SysTransient, "timeout".to_string())),
                other => panic!("unknown result kind {other}"),
            }
            logged.push(json!(height));
        }
        let d = catch_unwind(AssertUnwindSafe(|| {
            block_on(watchdog::verif_hooks::run_round(if canister >= 0 { Some(canister as u64) } else { None }))
        }));
        let out = match d {
            Err(_) => json!({"k": "trap", "msg": crate::exec::last_panic()}),
            Ok((status, explorer_height, diff, flag)) => json!({
                "k": "ok", "status": status,
                "target": explorer_height.map(|x| x as i64).unwrap_or(-1),
                "diffKnown": diff.is_some(), "diff": diff.unwrap_or(0),
                "flag": match flag { None => -1, Some(true) => 1, Some(false) => 0 },
                "stored": match watchdog::verif_hooks::api_access_target() { None => -1, Some(true) => 1, Some(false) => 0 },
            }),
        };
        rounds_out.push(json!({"fn": "watchdog", "target": target, "min": min, "behind": behind, "ahead": ahead,
                               "heights": logged, "canister": canister, "out": out}));
    }
    json!(rounds_out)
}

/// Byte-level classification of a transformed body (does not use a JSON parser).
fn body_shape(b: &[u8]) -> &'static str {
    const PRE: &[u8] = b"{\"height\":";
    if b.is_empty() {
        "empty"
    } else if b == b"{\"height\":null}" {
        "null"
    } else if b.starts_with(PRE) && b.ends_with(b"}") {
        let mid = &b[PRE.len()..b.len() - 1];
        let digits = !mid.is_empty() && mid.iter().all(|c| c.is_ascii_digit());
        let canonical = mid.len() == 1 || mid[0] != b'0';
        // must fit a u64
        let fits = mid.len() < 20 || (mid.len() == 20 && mid <= b"18446744073709551615".as_slice());
        if digits && canonical && fits {
            "height"
        } else {
            "other"
        }
    } else {
        "other"
    }
}

fn transform_call(input: &Value) -> Value {
    let ep = input["endpoint"].as_str().unwrap();
    let eps = watchdog::verif_hooks::endpoints();
    let (_n, _req, f) = eps.iter().find(|(n, _, _)| *n == ep).expect("endpoint");
    let body = hex::decode(input["body"].as_str().unwrap()).unwrap();
    let headers: Vec<HttpHeader> = input["headers"]
        .as_array()
        .cloned()
        .unwrap_or_default()
        .iter()
        .map(|h| HttpHeader { name: h[0].as_str().unwrap().to_string(), value: h[1].as_str().unwrap().to_string() })
        .collect();
    let status_s = input["status"].as_str().unwrap_or("200").to_string();
    let status: candid::Nat = status_s.parse().expect("status");
    let raw = TransformArgs {
        response: HttpRequestResult { status, headers, body },
        context: hex::decode(input["context"].as_str().unwrap_or("")).unwrap(),
    };
    let r = catch_unwind(AssertUnwindSafe(|| f(raw.clone())));
    // the exported query of the same endpoint must agree
    let qname = match ep {
        "bitcoin_mainnet_mempool" | "bitcoin_testnet_mempool" => "transform_bitcoin_mempool".to_string(),
        other => format!("transform_{other}"),
    };
    let queries = watchdog::verif_hooks::transform_queries();
    let qf = queries.iter().find(|(n, _)| *n == qname).map(|(_, f)| *f);
    // ... whatever the watchdog is configured for (the exported queries take no configuration argument, so
    // the stored configuration must not influence their result): asked under every target's configuration
    let mut r2s = Vec::new();
    if let Some(qf) = qf {
        for target in watchdog::verif_hooks::targets() {
            watchdog::verif_hooks::init(target);
            r2s.push(catch_unwind(AssertUnwindSafe(|| qf(raw.clone()))));
        }
    }
    let enc = |r: &Result<HttpRequestResult, Box<dyn std::any::Any + Send>>| match r {
        Err(_) => json!({"k": "trap", "msg": crate::exec::last_panic()}),
        Ok(o) => {
            let text = String::from_utf8(o.body.clone());
            json!({"k": "ok", "status": o.status.0.to_string(), "nheaders": o.headers.len(), "utf8": text.is_ok(),
                   "body": text.unwrap_or_default(), "hex": hex::encode(&o.body), "shape": body_shape(&o.body)})
        }
    };
    let out = enc(&r);
    let same_query = r2s.iter().all(|r2| enc(r2) == out);
    json!({"fn": "transform", "endpoint": ep, "kind": input["kind"], "cls": input["cls"], "hs": input["hs"], "status": status_s,
           "out": out, "queryAgrees": same_query})
}

// ------------------------------------------------------------------------------------------ C12
struct OneHeaderStore {
    genesis: bitcoin::block::Header,
}

impl ic_btc_validation::HeaderStore for OneHeaderStore {
    fn get_with_block_hash(&self, hash: &bitcoin::BlockHash) -> Option<bitcoin::block::Header> {
        if *hash == self.genesis.block_hash() {
            Some(self.genesis)
        } else {
            None
        }
    }
    fn get_with_height(&self, height: u32) -> Option<bitcoin::block::Header> {
        if height == 0 {
            Some(self.genesis)
        } else {
            None
        }
    }
    fn height(&self) -> u32 {
        0
    }
}

/// Builds a regtest block with `n` real transactions whose header commits to them, then replaces the
/// transaction list by the (1-based) index list `m` and validates the result.
fn block_case(input: &Value) -> Value {
    use bitcoin::hashes::Hash;
    let n = input["n"].as_u64().unwrap() as usize;
    let m: Vec<usize> = input["m"].as_array().unwrap().iter().map(|x| x.as_u64().unwrap() as usize).collect();
    let salt = input["salt"].as_u64().unwrap_or(0);
    let mut uni = crate::concrete::Universe::new(ic_btc_interface::Network::Regtest, salt);
    // transaction 1 of the universe is the genesis coinbase; ours are 2 .. n + 1
    for i in 0..n {
        let spec = crate::concrete::TxSpec {
            id: 2 + i,
            ins: if i == 0 { vec![] } else { vec![(1, 1)] },
            outs: vec![crate::concrete::OutSpec { a: 0, v: 1000 + i as u64, s: "p2pk".into() }],
            w: (i + salt as usize) % 2 == 1,
        };
        uni.add_tx(&spec);
    }
    let spec = crate::concrete::BlockSpec { id: 2, parent: 1, diff: 1, time: 600, txs: (2..2 + n).collect() };
    uni.add_block(&spec);
    let original = uni.blocks[&2].clone();
    let mut mutated = original.clone();
    mutated.txdata = m.iter().map(|i| original.txdata[i - 1].clone()).collect();
    // repeated occurrences may differ from the first in their witness only: same transaction id (the merkle tree
    // is built from ids, which do not cover witness data), different bytes and different wtxid
    if let Some(wit) = input["wit"].as_str() {
        let mut seen = std::collections::BTreeSet::new();
        for (pos, i) in m.iter().enumerate() {
            if !seen.insert(*i) {
                for inp in mutated.txdata[pos].input.iter_mut() {
                    inp.witness = match wit {
                        "strip" if !inp.witness.is_empty() => bitcoin::Witness::new(),
                        _ => bitcoin::Witness::from_slice(&[vec![pos as u8, 0x51u8], vec![salt as u8]]),
                    };
                }
            }
        }
    }
    let commit_self = input["commit"].as_str() == Some("self");
    if commit_self && !mutated.txdata.is_empty() {
        // the header honestly commits to the (possibly repeating) list
        mutated.header.merkle_root = mutated.compute_merkle_root().unwrap();
        crate::concrete::mine(&mut mutated.header, true);
    }
    let root_same = !mutated.txdata.is_empty() && mutated.compute_merkle_root() == Some(mutated.header.merkle_root);
    let store = OneHeaderStore { genesis: uni.blocks[&1].header };
    let validator = ic_btc_validation::BlockValidator::new(store, bitcoin::Network::Regtest);
    let now = std::time::Duration::from_secs(uni.genesis_time as u64 + 100000);
    let r = catch_unwind(AssertUnwindSafe(|| validator.validate_block(&mutated, now)));
    let verdict = match r {
        Err(_) => "trap".to_string(),
        Ok(Ok(())) => "ok".to_string(),
        Ok(Err(e)) => match e {
            ic_btc_validation::ValidateBlockError::NoTransactions => "NoTransactions".into(),
            ic_btc_validation::ValidateBlockError::InvalidCoinbase => "InvalidCoinbase".into(),
            ic_btc_validation::ValidateBlockError::InvalidMerkleRoot => "InvalidMerkleRoot".into(),
            ic_btc_validation::ValidateBlockError::DuplicateTransactions => "DuplicateTransactions".into(),
            ic_btc_validation::ValidateBlockError::InvalidBlockHeader(h) => format!("InvalidBlockHeader:{:?}", h),
        },
    };
    // end to end through the canister: the mutated block must not be admitted unless acceptable
    let admitted = {
        ic_btc_canister::memory::set_memory(Default::default());
        ic_btc_canister::runtime::mock_time::set_mock_time_secs(uni.genesis_time as u64 + 100000);
        ic_btc_canister::init(ic_btc_interface::InitConfig {
            network: Some(ic_btc_interface::Network::Regtest),
            stability_threshold: Some(10),
            ..Default::default()
        });
        let blk = ic_btc_types::Block::new(mutated.clone());
        let r = catch_unwind(AssertUnwindSafe(|| {
            ic_btc_canister::with_state_mut(|s| ic_btc_canister::state::insert_block(s, blk).is_ok())
        }));
        match r {
            Err(_) => "trap",
            Ok(true) => "yes",
            Ok(false) => "no",
        }
    };
    let _ = original.header.merkle_root.to_byte_array();
    json!({"fn": "block", "n": n, "m": m, "case": input["case"], "wit": input["wit"].as_str().unwrap_or("same"), "rootSame": root_same, "commit": if commit_self { "self" } else { "original" },
           "out": {"verdict": verdict, "admitted": admitted}})
}

pub fn run(input: &Value) -> Vec<Value> {
    match input["fn"].as_str().unwrap() {
        "fee_cover" => fee_cover(),
        "watchdog" => watchdog_rounds(input).as_array().unwrap().clone(),
        "transform" => vec![transform_call(input)],
        "block" => vec![block_case(input)],
        f if f.starts_with("hdr_") => crate::headers::run(input),
        "endpoints" => watchdog::verif_hooks::endpoints()
            .iter()
            .map(|(n, _, _)| json!({"fn": "endpoint", "name": n, "format": endpoint_format(n)}))
            .collect(),
        other => panic!("unknown decision function {other}"),
    }
}
