SPECIFICATION MCSpec
CONSTANTS
  MaxHeaders = 3
  MaxFeeTxs = 3
  SyncedSlack = 2
  DepthBoundOverride = 2
  MaxBlocks = 4
  Diffs = {1, 2}
  Thrs = {1, 2}
  Nets = {"mainnet", "regtest"}
  MaxNext = 1
INVARIANTS
  BestChainIsHeaviest
  MechIsRule
  DiffPartSound
  NewAnchorOnServedChain
  CutOnChain
  CutDefined
  ChainLinked
  NextHeadersClean
  Shape
  FastAgree
PROPERTIES
  Finality
  NotWithheld
VIEW MCView
CHECK_DEADLOCK FALSE
