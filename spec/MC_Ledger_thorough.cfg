SPECIFICATION LSpec
CONSTANTS
  MaxHeaders = 3
  MaxFeeTxs = 3
  SyncedSlack = 2
  DepthBoundOverride = 5
  MaxBlocks = 4
  Thr = 1
INVARIANTS
  UtxosAgree
  BalanceAgrees
  CacheExact
  StableIsLedger
  BlockwiseAgrees
  Shape
CHECK_DEADLOCK FALSE
