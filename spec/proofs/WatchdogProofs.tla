-------------------------- MODULE WatchdogProofs --------------------------
(***************************************************************************)
(* Unbounded statements about the watchdog's decision (C17), proved with   *)
(* TLAPS for every number of providers, every height and every band:       *)
(* the decision as worded in the property is what Decision computes.       *)
(***************************************************************************)
EXTENDS Watchdog, TLAPS

Quorum(results, min, behind, ahead) ==
  LET s == Valid(results) IN
  /\ Len(s) >= min /\ Len(s) # 0
  /\ Cardinality({i \in 1..Len(s) : Median(s) - behind <= s[i] /\ s[i] <= Median(s) + ahead}) >= min

THEOREM NoActionWithoutData ==
  ASSUME NEW results, NEW min, NEW behind, NEW ahead
  PROVE  Decision(results, None, min, behind, ahead).flag = -1
  BY DEF Decision, Status, Flag, None

InBandCount(results, behind, ahead) ==
  LET s == Valid(results) IN
  Cardinality({i \in 1..Len(s) : Median(s) - behind <= s[i] /\ s[i] <= Median(s) + ahead})

\* typing facts about the bag of successful heights (Valid is a sorted sub-sequence of integers; the
\* index set is a subset of 1..Len, hence finite)
Typed(results, min, behind, ahead) ==
  /\ Valid(results) \in Seq(Int) /\ min \in Nat
  /\ InBandCount(results, behind, ahead) \in Nat

THEOREM NoActionWithoutQuorum ==
  ASSUME NEW results, NEW canister, NEW min, NEW behind, NEW ahead,
         Typed(results, min, behind, ahead),
         ~Quorum(results, min, behind, ahead)
  PROVE  Decision(results, canister, min, behind, ahead).flag = -1
  <1> DEFINE s == Valid(results)
  <1>1. Len(s) \in Nat
    BY DEF Typed
  <1>2. Target(results, min, behind, ahead) = None
    BY <1>1 DEF Target, Quorum, Typed, InBandCount
  <1> QED
    BY <1>2 DEF Decision, Status, Flag, None

THEOREM TargetIsMedian ==
  ASSUME NEW results, NEW min, NEW behind, NEW ahead,
         Typed(results, min, behind, ahead),
         Quorum(results, min, behind, ahead)
  PROVE  Target(results, min, behind, ahead) = Median(Valid(results))
  <1> DEFINE s == Valid(results)
  <1>1. Len(s) \in Nat
    BY DEF Typed
  <1> QED
    BY <1>1 DEF Target, Quorum, Typed, InBandCount

THEOREM EnabledIffInBand ==
  ASSUME NEW results, NEW canister \in Int, NEW min, NEW behind \in Int, NEW ahead \in Int,
         canister # None,
         Typed(results, min, behind, ahead),
         Quorum(results, min, behind, ahead),
         Median(Valid(results)) \in Int, Median(Valid(results)) # None
  PROVE  LET d == Decision(results, canister, min, behind, ahead)
             m == Median(Valid(results))
         IN /\ d.flag \in {0, 1}
            /\ d.flag = 1 <=> (m - behind <= canister /\ canister <= m + ahead)
  <1> DEFINE m == Median(Valid(results))
  <1>1. Target(results, min, behind, ahead) = m
    BY TargetIsMedian
  <1>2. Status(canister, m, behind, ahead) \in {"behind", "ahead", "ok"}
    BY DEF Status
  <1>3. Status(canister, m, behind, ahead) = "ok" <=> (m - behind <= canister /\ canister <= m + ahead)
    BY DEF Status
  <1> QED
    BY <1>1, <1>2, <1>3 DEF Decision, Flag
=============================================================================
