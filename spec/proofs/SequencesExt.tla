---------------------------- MODULE SequencesExt ----------------------------
(* Stub for TLAPS (the CommunityModules are not on tlapm's path): the proofs never expand SortSeq. *)
EXTENDS Sequences, Integers
SortSeq(s, op(_, _)) == CHOOSE t \in Seq({s[i] : i \in 1..Len(s)}) : Len(t) = Len(s)
=============================================================================
