----------------------------- MODULE FeesProofs -----------------------------
(***************************************************************************)
(* Unbounded statements about the fee formula (C16), proved with TLAPS for *)
(* every fee table, instruction count and payload length.                  *)
(***************************************************************************)
EXTENDS Fees, TLAPS

Endpoints == {"get_utxos", "get_balance", "get_current_fee_percentiles", "get_block_headers", "send_transaction"}

FeeTable == [ub : Nat, ur : Nat, um : Nat, bal : Nat, balm : Nat, pct : Nat, pctm : Nat,
             hb : Nat, hr : Nat, hm : Nat, sb : Nat, sp : Nat]

\* a fee table whose maxima cover the base / flat fees (true of every default table; a table that
\* violates it makes the code's `maximum - base` underflow)
Sane(f) == f.ub <= f.um /\ f.bal <= f.balm /\ f.pct <= f.pctm /\ f.hb <= f.hm

\* "never exceed the maximum": what is charged is at most what the call had to carry
THEOREM NeverMoreThanRequired ==
  ASSUME NEW f \in FeeTable, Sane(f), NEW ep \in Endpoints, NEW success \in BOOLEAN,
         NEW instr \in Nat, NEW len \in Nat
  PROVE  Charged(f, ep, success, instr, len) <= Required(f, ep, len)
  <1>1. CASE ep = "get_utxos"
    BY <1>1 DEF Charged, Required, MinOf2, FeeTable, Sane
  <1>2. CASE ep = "get_balance"
    BY <1>2 DEF Charged, Required, FeeTable, Sane
  <1>3. CASE ep = "get_current_fee_percentiles"
    BY <1>3 DEF Charged, Required, FeeTable, Sane
  <1>4. CASE ep = "get_block_headers"
    BY <1>4 DEF Charged, Required, MinOf2, FeeTable, Sane
  <1>5. CASE ep = "send_transaction"
    BY <1>5 DEF Charged, Required, FeeTable
  <1> QED
    BY <1>1, <1>2, <1>3, <1>4, <1>5 DEF Endpoints

\* "for a request-level error only the base or flat fee"
THEOREM ErrorChargesBase ==
  ASSUME NEW f \in FeeTable, NEW instr \in Nat, NEW len \in Nat
  PROVE  /\ Charged(f, "get_utxos", FALSE, instr, len) = f.ub
         /\ Charged(f, "get_block_headers", FALSE, instr, len) = f.hb
         /\ Charged(f, "get_balance", FALSE, instr, len) = f.bal
         /\ Charged(f, "get_current_fee_percentiles", FALSE, instr, len) = f.pct
  BY DEF Charged, FeeTable

\* a call that carried enough is never charged more than it carried
THEOREM ChargedIsCovered ==
  ASSUME NEW f \in FeeTable, Sane(f), NEW ep \in Endpoints, NEW success \in BOOLEAN,
         NEW instr \in Nat, NEW len \in Nat, NEW avail \in Nat, Enough(f, ep, len, avail)
  PROVE  Charged(f, ep, success, instr, len) <= avail
  <1>1. Charged(f, ep, success, instr, len) <= Required(f, ep, len)
    BY NeverMoreThanRequired
  <1>2. Required(f, ep, len) <= avail
    BY DEF Enough
  <1>3. Charged(f, ep, success, instr, len) \in Int /\ Required(f, ep, len) \in Int
    BY DEF Charged, Required, MinOf2, FeeTable, Endpoints
  <1> QED
    BY <1>1, <1>2, <1>3
=============================================================================
