SPECIFICATION Spec
CONSTANTS
  Base = 7
  MaxN = 120
INVARIANT Correct
CHECK_DEADLOCK FALSE
