------------------------------ MODULE MC_Sync ------------------------------
(***************************************************************************)
(* Bounded instance for C13: the fetch protocol under every interleaving   *)
(* of heartbeats with the reply of the block source, every reply script    *)
(* (complete replies with any items incl. garbage, partial replies with    *)
(* 0..MaxPages follow-up pages, rejects at every step), set_config of the  *)
(* syncing flag and upgrades at every point, over a fixed small universe   *)
(* (a chain 1 <- 2 <- 3 and a fork 1 <- 4).                                *)
(*                                                                         *)
(* A heartbeat is split at the await: Start (everything up to the call)    *)
(* and Reply.  Several heartbeats may be started before a reply arrives.   *)
(***************************************************************************)
EXTENDS Canister

CONSTANTS MaxPages, MaxFaults, HbIds

VARIABLES src,      \* block source: the partial response being served [item, n] or "none"
          faults,   \* number of rejects / upgrades / syncing switches so far (bounded)
          reqs      \* requests in flight: id -> request

svars == <<vars, src, faults, reqs>>

TheUniverse ==
  [par  |-> <<0, 1, 2, 1>>, diff |-> <<1, 1, 1, 1>>, time |-> <<0, 600, 1200, 700>>,
   btx  |-> <<<<1>>, <<2>>, <<3>>, <<4>>>>, tin |-> <<<<>>, <<>>, <<>>, <<>>>>,
   tout |-> <<<<[a |-> 0, v |-> 0]>>, <<[a |-> 1, v |-> 5]>>, <<[a |-> 1, v |-> 5]>>, <<[a |-> 2, v |-> 5]>>>>,
   vsz  |-> <<100, 100, 100, 100>>, h |-> <<0, 1, 2, 1>>]

Cfg0 == [net |-> "regtest", thr |-> 2, api |-> TRUE, syncing |-> TRUE, gate |-> FALSE, lazy |-> TRUE, burn |-> FALSE,
         fees |-> [ub |-> 0, ur |-> 0, um |-> 0, bal |-> 0, balm |-> 0, pct |-> 0, pctm |-> 0,
                   hb |-> 0, hr |-> 0, hm |-> 0, sb |-> 0, sp |-> 0]]

NoSrc == [k |-> "none"]

SInit ==
  /\ uni = TheUniverse
  /\ LET m == InitState(Cfg0)
     IN /\ cfg = m.cfg /\ stable = m.stable /\ tree = m.T /\ ing = m.ing /\ next = m.next
        /\ sync = m.sync /\ fee = m.fee /\ cnt = m.cnt /\ now = 1000000 /\ known = m.known
        /\ flight = m.flight /\ walks = m.walks
  /\ src = NoSrc /\ faults = 0 /\ reqs = [i \in {} |-> 0]

Valid(b) == [b |-> b, as |-> "valid"]
Junk == [b |-> 2, as |-> "garbage"]
Bad == [b |-> 3, as |-> "badpow"]
Items == {Valid(b) : b \in 2..4} \cup {Junk, Bad}
\* complete replies: nothing, one item, or two items
Completes == {<<>>} \cup {<<i>> : i \in Items} \cup {<<i, j>> : i \in Items, j \in {Valid(b) : b \in 2..4}}

\* a heartbeat starts: everything up to the await
Start(id) ==
  /\ id \notin DOMAIN reqs
  /\ LET f == HbFirst(St, 1000)
     IN /\ f.st # "trap"
        /\ IF f.st = "await"
           THEN /\ Install([f.m EXCEPT !.flight = @ \cup {id}])
                /\ reqs' = [i \in DOMAIN reqs \cup {id} |-> IF i = id THEN f.req ELSE reqs[i]]
           ELSE /\ Install(f.m) /\ reqs' = reqs
  /\ UNCHANGED <<uni, src, faults>>

Finish(id, reply) ==
  /\ Install([ApplyReply(St, reply) EXCEPT !.flight = @ \ {id}])
  /\ reqs' = [i \in DOMAIN reqs \ {id} |-> reqs[i]]
  /\ UNCHANGED uni

\* the source answers the request of heartbeat id
ReplyComplete(id) ==
  /\ id \in DOMAIN reqs /\ reqs[id].k = "initial"
  /\ faults < MaxFaults            \* arbitrary (possibly unhelpful) content counts as misbehaviour
  /\ \E blocks \in Completes : Finish(id, [k |-> "complete", blocks |-> blocks, next |-> <<>>])
  /\ src' = NoSrc /\ faults' = faults + 1

ReplyPartial(id) ==
  /\ id \in DOMAIN reqs /\ reqs[id].k = "initial"
  /\ faults < MaxFaults
  /\ \E b \in 2..4, n \in 0..MaxPages :
       /\ Finish(id, [k |-> "partial", item |-> Valid(b), n |-> n, next |-> <<>>])
       /\ src' = [k |-> "partial", n |-> n]
  /\ faults' = faults + 1

\* follow-up i is answered with data iff page i exists
ReplyFollowUp(id) ==
  /\ id \in DOMAIN reqs /\ reqs[id].k = "followup"
  /\ src.k = "partial" /\ reqs[id].i < src.n
  /\ Finish(id, [k |-> "followup", last |-> reqs[id].i + 1 = src.n])
  /\ UNCHANGED <<src, faults>>

\* a follow-up for a page that does not exist is rejected (not a fault of the environment)
ReplyNoSuchPage(id) ==
  /\ id \in DOMAIN reqs /\ reqs[id].k = "followup"
  /\ ~(src.k = "partial" /\ reqs[id].i < src.n)
  /\ Finish(id, [k |-> "reject"])
  /\ src' = NoSrc /\ UNCHANGED faults

ReplyReject(id) ==
  /\ id \in DOMAIN reqs /\ faults < MaxFaults
  /\ Finish(id, [k |-> "reject"])
  /\ src' = NoSrc /\ faults' = faults + 1

DoUpgrade ==
  /\ faults < MaxFaults
  /\ Install(Upgrade(St, [x \in {} |-> 0]))
  /\ reqs' = [i \in {} |-> 0] /\ src' = NoSrc /\ faults' = faults + 1 /\ UNCHANGED uni

SwitchSyncing ==
  /\ faults < MaxFaults
  /\ Install(SetConfig(St, [syncing |-> ~cfg.syncing]))
  /\ faults' = faults + 1 /\ UNCHANGED <<uni, src, reqs>>

\* a well-behaved source: a follow-up page when asked for one; for an initial request the lowest block
\* that is not named in the request and whose parent is named (the anchor or a processed block)
Named(r) == {r.anchor} \cup {r.processed[i] : i \in 1..Len(r.processed)}
Successors(r) == {b \in 2..4 : b \notin Named(r) /\ Par(b) \in Named(r)}
GoodReply(id) ==
  \/ ReplyFollowUp(id) \/ ReplyNoSuchPage(id)
  \/ /\ id \in DOMAIN reqs /\ reqs[id].k = "initial"
     /\ LET sc == Successors(reqs[id])
            blocks == IF sc = {} THEN <<>> ELSE <<Valid(CHOOSE b \in sc : \A c \in sc : b <= c)>>
        IN \/ /\ Finish(id, [k |-> "complete", blocks |-> blocks, next |-> <<>>])
              /\ src' = NoSrc /\ UNCHANGED faults
           \/ /\ sc # {}          \* the same block split over pages
              /\ \E n \in 1..MaxPages :
                   /\ Finish(id, [k |-> "partial", item |-> blocks[1], n |-> n, next |-> <<>>])
                   /\ src' = [k |-> "partial", n |-> n]
              /\ UNCHANGED faults

SNext ==
  \/ \E id \in HbIds : Start(id) \/ ReplyComplete(id) \/ ReplyPartial(id) \/ ReplyFollowUp(id)
                       \/ ReplyNoSuchPage(id) \/ ReplyReject(id) \/ GoodReply(id)
  \/ DoUpgrade \/ SwitchSyncing

SSpec == SInit /\ [][SNext]_svars

\* counters only record history
SView == <<cfg, stable, tree, ing, next, sync, flight, src, faults, reqs>>

(***************************************************************************)
(* Safety (C13).                                                           *)
(***************************************************************************)
AtMostOneOutstanding == Cardinality(DOMAIN reqs) <= 1 /\ Cardinality(flight) <= 1

FlagIffOutstanding == sync.fetching <=> (DOMAIN reqs # {})

\* a follow-up request carries exactly the number of pages received so far, and is only issued
\* while a partial response is stored
FollowUpsNumbered ==
  \A id \in DOMAIN reqs :
    reqs[id].k = "followup" => sync.resp.k = "partial" /\ reqs[id].i = sync.resp.got

\* pages received never exceed the announced number
PagesBounded == sync.resp.k = "partial" => sync.resp.got <= sync.resp.n

\* an initial request names the anchor and every other unstable block of the tree as it is now
\* (the tree cannot change while the request is outstanding)
InitialNamesTree ==
  \A id \in DOMAIN reqs :
    reqs[id].k = "initial" =>
      /\ reqs[id].anchor = tree.anchor
      /\ {reqs[id].processed[i] : i \in 1..Len(reqs[id].processed)} = InTree(tree) \ {tree.anchor}
      /\ sync.resp.k = "none"

\* no block is applied twice
NoDuplicates ==
  /\ \A i, j \in 1..Len(tree.arr) : i # j => tree.arr[i] # tree.arr[j]
  /\ \A i \in 1..Len(stable) : stable[i] \notin InTree(tree)

Shape == TreeWellFormed

(***************************************************************************)
(* Liveness: once the environment stops misbehaving (faults are bounded)   *)
(* and keeps answering, every valid block is eventually applied.           *)
(***************************************************************************)
Applied == InTree(tree) \cup {stable[i] : i \in 1..Len(stable)}
Fair ==
  /\ \A id \in HbIds : WF_svars(Start(id))
  /\ \A id \in HbIds : SF_svars(GoodReply(id))
LiveSpec == SSpec /\ Fair
\* the environment may legitimately leave syncing switched off; then nothing is fetched
EventuallyApplied == <>[](cfg.syncing => {1, 2, 3} \subseteq Applied)

=============================================================================
