------------------------------ MODULE Watchdog ------------------------------
(***************************************************************************)
(* C17: the watchdog's decision as a function of the LATEST round only.    *)
(* A round is a bag of explorer results (a height, or None = -1 for a      *)
(* failed fetch) and the canister height (or -1 if unknown).               *)
(***************************************************************************)
EXTENDS Integers, Sequences, FiniteSets, SequencesExt, FiniteSetsExt

None == -1

\* successful heights of a round, sorted (the decision may only depend on this bag)
Valid(results) == SortSeq(SelectSeq(results, LAMBDA h : h # None), LAMBDA a, b : a < b)

Median(s) ==       \* s sorted, non-empty
  LET n == Len(s) IN
  IF n % 2 = 0 THEN (s[n \div 2] + s[(n \div 2) + 1]) \div 2 ELSE s[(n + 1) \div 2]

\* the height the explorers agree on, or None: at least `min` successful results, and at least
\* `min` of them within [median - behind, median + ahead]
Target(results, min, behind, ahead) ==
  LET s == Valid(results) IN
  IF Len(s) < min \/ Len(s) = 0 THEN None
  ELSE LET m == Median(s)
           inBand == Cardinality({i \in 1..Len(s) : m - behind <= s[i] /\ s[i] <= m + ahead})
       IN IF inBand >= min THEN m ELSE None

Status(canister, target, behind, ahead) ==
  IF canister = None \/ target = None THEN "not_enough_data"
  ELSE IF canister - target < 0 - behind THEN "behind"
  ELSE IF canister - target > ahead THEN "ahead"
  ELSE "ok"

\* 1 = enable API access, 0 = disable, -1 = no action
Flag(status) == IF status = "ok" THEN 1 ELSE IF status \in {"behind", "ahead"} THEN 0 ELSE -1

Decision(results, canister, min, behind, ahead) ==
  LET t == Target(results, min, behind, ahead)
      st == Status(canister, t, behind, ahead)
  IN [status |-> st, target |-> t, flag |-> Flag(st)]

=============================================================================
