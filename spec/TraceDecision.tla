--------------------------- MODULE TraceDecision ---------------------------
(***************************************************************************)
(* Validation of recorded calls of the stateless decision procedures of    *)
(* the implementation: each record is [fn, inputs, out]; the only action   *)
(* checks that `out` is what the corresponding TLA+ operator allows.       *)
(***************************************************************************)
EXTENDS Watchdog, Transform, BlockRules, Json, IOUtils, TLC

\* BigNat with the base the harness uses for numbers beyond 32 bits
BN == INSTANCE BigNat WITH Base <- 10000

Rec == ndJsonDeserialize(IOEnv.TRACE)
VARIABLE l
R == Rec[l]
Has(r, f) == f \in DOMAIN r

Report(tag, exp, got) ==
  PrintT("@@" \o ToJson([kind |-> "MISMATCH", l |-> l, ev |-> R.fn, tag |-> tag, exp |-> exp, got |-> got,
                         paused |-> FALSE, upg |-> FALSE]))
Agree(tag, exp, got) == exp = got \/ Report(tag, exp, got)

\* C16: the client attaches at least what the canister requires
FeeCover == Agree("feecover." \o R.ep, TRUE, BN!Leq(R.required, R.client))
FeeCoverSend ==
  Agree("feecover.send_transaction", TRUE, BN!Leq(BN!Add(R.sb, BN!MulInt(R.sp, R.len)), R.client))

\* C17
WatchdogRound ==
  LET d == Decision(R.heights, R.canister, R.min, R.behind, R.ahead) IN
  /\ Agree("watchdog.noTrap", "ok", R.out.k)
  /\ R.out.k # "ok" \/
     /\ Agree("watchdog.status", d.status, R.out.status)
     /\ Agree("watchdog.target", d.target, R.out.target)
     /\ Agree("watchdog.flag", d.flag, R.out.flag)
     /\ Agree("watchdog.storedFlag", d.flag, R.out.stored)

\* C18
TransformCall ==
  /\ Agree("transform.noTrap", "ok", R.out.k)
  /\ R.out.k # "ok" \/
     /\ Agree("transform.noHeaders", 0, R.out.nheaders)
     /\ Agree("transform.status", R.status, R.out.status)
     /\ Agree("transform.utf8", TRUE, R.out.utf8)
     /\ Agree("transform.shape", TRUE, R.out.shape \in {"empty", "null", "height"})
     /\ (R.status = "200" \/ Agree("transform.errorStatusBody", "", R.out.body))
     /\ R.cls = "Arbitrary" \/
        /\ Agree("transform.body", Body(R.kind, R.status = "200", R.cls, R.hs), R.out.body)
        /\ Agree("transform.canonicalShape", TRUE, CanonicalShape(R.out.body, R.hs))
     /\ Agree("transform.queryAgrees", TRUE, R.queryAgrees)

\* C12
BlockCase ==
  LET self == Has(R, "commit") /\ R.commit = "self"       \* the header commits to the list m itself
      ok == IF self THEN AcceptableCommitted(R.m) ELSE Acceptable(R.m, R.n)
      errs == IF self THEN ErrorsCommitted(R.m) ELSE Errors(R.m, R.n)
  IN /\ Agree("block.hashAbstraction", IF self THEN Len(R.m) >= 1 ELSE Len(R.m) >= 1 /\ RootMatches(R.m, R.n), R.rootSame)
     /\ Agree("block.noTrap", TRUE, R.out.verdict # "trap" /\ R.out.admitted # "trap")
     /\ Agree("block.accepted", ok, R.out.verdict = "ok")
     /\ Agree("block.admitted", IF ok THEN "yes" ELSE "no", R.out.admitted)
     /\ (ok \/ Agree("block.error", TRUE, R.out.verdict \in errs))

Init == l = 1
Next ==
  /\ l <= Len(Rec) /\ l' = l + 1
  /\ CASE R.fn = "fee_cover" -> FeeCover
       [] R.fn = "fee_cover_send" -> FeeCoverSend
       [] R.fn = "watchdog" -> WatchdogRound
       [] R.fn = "transform" -> TransformCall
       [] R.fn = "block" -> BlockCase
       [] OTHER -> TRUE
Spec == Init /\ [][Next]_l

Accepted ==
  \/ TLCGet("stats").diameter = Len(Rec) + 1
  \/ PrintT("@@" \o ToJson([kind |-> "UNCONSUMED", diameter |-> TLCGet("stats").diameter, records |-> Len(Rec)])) /\ FALSE
=============================================================================
