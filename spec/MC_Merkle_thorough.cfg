SPECIFICATION Spec
CONSTANTS
  MaxN = 7
  MaxLen = 8
INVARIANTS
  MutationsRepeat
  OriginalAccepted
  OnlyOriginalAccepted
CHECK_DEADLOCK FALSE
