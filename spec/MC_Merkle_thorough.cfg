SPECIFICATION Spec
CONSTANTS
  MaxN = 7
  MaxLen = 9
INVARIANTS
  MutationsRepeat
  OriginalAccepted
  OnlyOriginalAccepted
CHECK_DEADLOCK FALSE
