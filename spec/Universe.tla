------------------------------ MODULE Universe ------------------------------
(***************************************************************************)
(* Blocks, transactions and the REFERENCE ledger semantics.                *)
(*                                                                         *)
(* Everything here is independent of the canister's data structures: the   *)
(* ledger "as of block b" is obtained by replaying the chain from genesis  *)
(* to b.  This is the oracle that query answers are compared with          *)
(* (properties C01, C04, C05, C06, C15).                                   *)
(*                                                                         *)
(* uni = [ par  : Seq(Nat)    parent of block i (0 for the genesis block)  *)
(*         diff : Seq(Nat)    difficulty of block i                        *)
(*         time : Seq(Int)    header timestamp, seconds relative to genesis*)
(*         btx  : Seq(Seq(tx))transactions of block i (first = coinbase)   *)
(*         tin  : Seq(Seq(<<tx, j>>)) inputs of transaction t              *)
(*         tout : Seq(Seq([a, v]))    outputs of transaction t             *)
(*         vsz  : Seq(Nat)    virtual size of transaction t                *)
(*         h    : Seq(Nat)    height of block i (redundant: checked by     *)
(*                            UniverseValid; lets Height be a lookup) ]    *)
(* Blocks are 1..Len(uni.par), block 1 is genesis; transactions are        *)
(* 1..Len(uni.tin); output indices j are 1-based (vout = j - 1).           *)
(***************************************************************************)
EXTENDS Integers, Sequences, FiniteSets, SequencesExt, FiniteSetsExt, Functions, Folds, TLC

VARIABLE uni

NoAddr == 0      \* a script that has no address (bare pubkey, non-standard, ...)
OpRet  == -1     \* an OP_RETURN output: provably unspendable, never part of the ledger

NumBlocks == Len(uni.par)
AllBlocks == 1..NumBlocks
AllTxs    == 1..Len(uni.tin)
Par(b)  == uni.par[b]
Diff(b) == uni.diff[b]
Time(b) == uni.time[b]
Txs(b)  == uni.btx[b]
Ins(t)  == uni.tin[t]
Outs(t) == uni.tout[t]
IsCoinbase(t) == Len(Ins(t)) = 0

\* The recursive definitions ...
RECURSIVE HeightRec(_)
HeightRec(b) == IF Par(b) = 0 THEN 0 ELSE 1 + HeightRec(Par(b))

RECURSIVE ChainToRec(_)
ChainToRec(b) == IF b = 0 THEN <<>> ELSE Append(ChainToRec(Par(b)), b)

\* ... and what is evaluated.  TLC looks identifiers up in a context that grows with every level of a
\* recursion, so a recursion as deep as a chain of several hundred blocks costs the square of its depth
\* (measured: 80 % of the validation time of a 700-block history was context lookup).  The heights are
\* therefore carried by the universe (and checked against the parents by UniverseValid), and chains are
\* built with folds.  The bounded instances check that both formulations agree (Mech.tla BlockwiseAgrees).
Height(b) == uni.h[b]

ChainTo(b) ==
  IF b = 0 THEN <<>>
  ELSE Reverse(FoldLeft(LAMBDA acc, i : Append(acc, Par(acc[Len(acc)])), <<b>>, [i \in 1..Height(b) |-> i]))

\* the up to k last blocks of the chain ending with b
LastOfChain(b, k) ==
  IF b = 0 THEN <<>>
  ELSE Reverse(FoldLeft(LAMBDA acc, i : IF Par(acc[Len(acc)]) = 0 THEN acc ELSE Append(acc, Par(acc[Len(acc)])),
                        <<b>>, [i \in 1..(k - 1) |-> i]))

IsAncestorOrSelf(a, b) == \E i \in 1..Len(ChainTo(b)) : ChainTo(b)[i] = a

SumSeq(s) == FoldLeft(LAMBDA acc, x : acc + x, 0, s)

(***************************************************************************)
(* Ledger: a set of entries [t, j, a, v, h].                               *)
(***************************************************************************)
Entry(t, j, h) == [t |-> t, j |-> j, a |-> Outs(t)[j].a, v |-> Outs(t)[j].v, h |-> h]

SpentBy(t) == {<<Ins(t)[i][1], Ins(t)[i][2]>> : i \in 1..Len(Ins(t))}

ApplyTx(L, t, h) ==
  LET spent == SpentBy(t)
      kept  == {e \in L : <<e.t, e.j>> \notin spent}
      new   == {Entry(t, j, h) : j \in {k \in 1..Len(Outs(t)) : Outs(t)[k].a # OpRet}}
  IN kept \cup new

\* the transactions of a block applied in order (the definition) ...
ApplyBlockSeq(L, b, h) == FoldLeft(LAMBDA acc, t : ApplyTx(acc, t, h), L, Txs(b))

\* ... and the same result computed block-wise, in O(|L| + |block|) set operations instead of
\* O(|L| * |block|): on a transaction-valid block (every input exists unspent when it is consumed, which is
\* the domain of the properties and is checked by UniverseValid) an entry survives iff it is in L or
\* created by the block, and no transaction of the block spends it.  MC_Ledger checks the two agree.
\* (TLCEval: TLC represents UNION, \cup and set filters lazily, and membership in a lazy union walks all
\* its parts; forcing them to enumerated sets is what makes this linear)
ApplyBlock(L, b, h) ==
  LET txs == Txs(b)
      spent == TLCEval(UNION {SpentBy(txs[i]) : i \in 1..Len(txs)})
      new == TLCEval(UNION {{Entry(txs[i], j, h) : j \in {k \in 1..Len(Outs(txs[i])) : Outs(txs[i])[k].a # OpRet}} : i \in 1..Len(txs)})
  IN TLCEval({e \in L \cup new : <<e.t, e.j>> \notin spent})

RECURSIVE LedgerAtRec(_)
LedgerAtRec(b) == IF b = 0 THEN {} ELSE ApplyBlockSeq(LedgerAtRec(Par(b)), b, HeightRec(b))

LedgerAt(b) == IF b = 0 THEN {} ELSE FoldLeft(LAMBDA L, x : ApplyBlock(L, x, Height(x)), {}, ChainTo(b))

AddrEntries(a, b) == {e \in LedgerAt(b) : e.a = a}
SumValues(S) == FoldSet(LAMBDA e, acc : acc + e.v, 0, S)
Balance(a, b) == SumValues(AddrEntries(a, b))

(***************************************************************************)
(* Transaction validity of a block on its own chain (the domain of the     *)
(* properties): every input exists unspent when it is consumed.            *)
(***************************************************************************)
TxValidBlock(b) ==
  LET step(acc, t) ==
        IF ~acc.ok THEN acc
        ELSE LET have == {<<e.t, e.j>> : e \in acc.L}
             IN IF SpentBy(t) \subseteq have /\ Cardinality(SpentBy(t)) = Len(Ins(t))
                THEN [ok |-> TRUE, L |-> ApplyTx(acc.L, t, 0)]
                ELSE [ok |-> FALSE, L |-> acc.L]
      start == [ok |-> TRUE, L |-> LedgerAt(Par(b))]
  IN /\ Len(Txs(b)) >= 1
     /\ IsCoinbase(Txs(b)[1])
     /\ \A i \in 2..Len(Txs(b)) : ~IsCoinbase(Txs(b)[i])
     /\ FoldLeft(step, start, Txs(b)).ok

\* the ledgers of all blocks in one pass (block ids are assigned in creation order: a parent has a
\* smaller id than its children), used to evaluate the domain condition on large universes
LedgerMap ==
  FoldLeft(LAMBDA L, b : [L EXCEPT ![b] = ApplyBlock(IF Par(b) = 0 THEN {} ELSE L[Par(b)], b, 0)],
           [b \in AllBlocks |-> {}], [i \in 1..NumBlocks |-> i])

\* block-wise: every input is an unspent output of the parent's ledger or an output of an EARLIER
\* transaction of the block, and no output is consumed twice
TxValidBlockFrom(b, parentLedger) ==
  LET txs == Txs(b)
      parentOut == TLCEval({<<e.t, e.j>> : e \in parentLedger})
      inBlockBefore(o, i) == \E k \in 1..(i - 1) : txs[k] = o[1] /\ o[2] \in 1..Len(Outs(o[1])) /\ Outs(o[1])[o[2]].a # OpRet
      allSpent == TLCEval(UNION {SpentBy(txs[i]) : i \in 1..Len(txs)})
  IN /\ Len(txs) >= 1
     /\ IsCoinbase(txs[1])
     /\ \A i \in 2..Len(txs) : ~IsCoinbase(txs[i])
     /\ \A i \in 1..Len(txs) : \A o \in SpentBy(txs[i]) : o \in parentOut \/ inBlockBefore(o, i)
     /\ Cardinality(allSpent) = SumSeq([i \in 1..Len(txs) |-> Len(Ins(txs[i]))])

UniverseValid ==
  /\ \A b \in AllBlocks : Par(b) < b
  /\ Len(uni.h) = NumBlocks
  /\ \A b \in AllBlocks : uni.h[b] = IF Par(b) = 0 THEN 0 ELSE uni.h[Par(b)] + 1
  /\ LET LM == LedgerMap
     IN \A b \in AllBlocks : TxValidBlockFrom(b, IF Par(b) = 0 THEN {} ELSE LM[Par(b)])

(***************************************************************************)
(* Fee rates (millisatoshi per virtual byte, rounded down) of the          *)
(* non-coinbase transactions of a block, in block order.  A transaction    *)
(* whose outputs exceed its inputs contributes nothing.                    *)
(***************************************************************************)
InValue(t)  == SumSeq([i \in 1..Len(Ins(t)) |-> Outs(Ins(t)[i][1])[Ins(t)[i][2]].v])
OutValue(t) == SumSeq([j \in 1..Len(Outs(t)) |-> Outs(t)[j].v])

FeeRates(b) ==
  LET step(acc, t) ==
        IF IsCoinbase(t) \/ InValue(t) < OutValue(t) \/ uni.vsz[t] = 0 THEN acc
        ELSE Append(acc, (1000 * (InValue(t) - OutValue(t))) \div uni.vsz[t])
  IN FoldLeft(step, <<>>, Txs(b))

(***************************************************************************)
(* Operations of stable ingestion, in order: one per input of every        *)
(* non-coinbase transaction and one per output (OP_RETURN included: the    *)
(* budget predicate is consulted before the script is inspected).          *)
(***************************************************************************)
TxOps(t) ==
  [i \in 1..Len(Ins(t)) |-> [kind |-> "in", t |-> t, i |-> i]] \o
  [j \in 1..Len(Outs(t)) |-> [kind |-> "out", t |-> t, i |-> j]]

BlockOps(b) == FoldLeft(LAMBDA acc, t : acc \o TxOps(t), <<>>, Txs(b))
NumOps(b) == Len(BlockOps(b))

\* Net change of the number of outputs as the unstable bookkeeping counts it
\* (all outputs, OP_RETURN included, minus the inputs of non-coinbase transactions).
UtxoDelta(b) == SumSeq([i \in 1..Len(Txs(b)) |-> Len(Outs(Txs(b)[i])) - Len(Ins(Txs(b)[i]))])

=============================================================================
