SPECIFICATION Spec
CONSTANTS
  Interval = 4
  TargetSpan = 2400
  MaxLen = 9
  Nets = {"mainnet", "testnet", "regtest"}
INVARIANTS
  BelowLimit
  Canonical
  MainnetSteps
  RegtestFixed
  WalkBackIsDeclarative
  TestnetRealDifficulty
  MedianMonotone
  NeverStuck
CHECK_DEADLOCK FALSE
