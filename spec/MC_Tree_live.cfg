SPECIFICATION LiveSpec
CONSTANTS
  MaxHeaders = 3
  MaxFeeTxs = 3
  SyncedSlack = 2
  DepthBoundOverride = 2
  MaxBlocks = 4
  Diffs = {1, 2}
  Thrs = {1, 2}
  Nets = {"mainnet", "regtest"}
  MaxNext = 1
PROPERTIES
  IngestionFinishes
VIEW MCView
CHECK_DEADLOCK FALSE
