SPECIFICATION Spec
CONSTANTS
  Interval = 2016
  TargetSpan = 1209600
POSTCONDITION Accepted
CHECK_DEADLOCK FALSE
