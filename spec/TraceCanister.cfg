SPECIFICATION TraceSpec
CONSTANTS
  MaxHeaders = 100
  MaxFeeTxs = 10000
  SyncedSlack = 2
  DepthBoundOverride = 0
INVARIANT TreeWellFormed
POSTCONDITION TraceAccepted
CHECK_DEADLOCK FALSE
