SPECIFICATION LiveSpec
CONSTANTS
  MaxHeaders = 3
  MaxFeeTxs = 3
  SyncedSlack = 2
  DepthBoundOverride = 3
  MaxPages = 2
  MaxFaults = 3
  HbIds = {1, 2}
INVARIANTS
  AtMostOneOutstanding
  FlagIffOutstanding
  FollowUpsNumbered
  PagesBounded
  InitialNamesTree
  NoDuplicates
  Shape
PROPERTIES
  EventuallyApplied
VIEW SView
CHECK_DEADLOCK FALSE
