----------------------------- MODULE MC_BigNat -----------------------------
(* Checks BigNat against native arithmetic on a small base (exhaustive over 0..MaxN). *)
EXTENDS BigNat, TLC
CONSTANT MaxN
VARIABLES a, b
Init == a \in 0..MaxN /\ b \in 0..MaxN
Next == UNCHANGED <<a, b>>
Spec == Init /\ [][Next]_<<a, b>>
A == FromInt(a)
Bn == FromInt(b)
Correct ==
  /\ IsNat(A) /\ ToInt(A) = a
  /\ ToInt(Add(A, Bn)) = a + b /\ IsNat(Add(A, Bn)) /\ Norm(Add(A, Bn)) = Add(A, Bn)
  /\ (a >= b => ToInt(Sub(A, Bn)) = a - b /\ Norm(Sub(A, Bn)) = Sub(A, Bn))
  /\ ToInt(Mul(A, Bn)) = a * b /\ IsNat(Mul(A, Bn)) /\ Norm(Mul(A, Bn)) = Mul(A, Bn)
  /\ Cmp(A, Bn) = (IF a < b THEN -1 ELSE IF a = b THEN 0 ELSE 1)
  /\ ToInt(MulInt(A, b)) = a * b
  /\ (b > 0 => IsFloorDiv(FromInt(a \div b), A, Bn))
  /\ (b > 0 /\ a \div b > 0 => ~IsFloorDiv(FromInt((a \div b) - 1), A, Bn))
  /\ (b > 0 => ~IsFloorDiv(FromInt((a \div b) + 1), A, Bn))
  /\ ToInt(MulPow(A, 2, b % 5)) = a * (2 ^ (b % 5))
  /\ (b > 0 => ToInt(DivMod(A, b).q) = a \div b /\ DivMod(A, b).r = a % b /\ Norm(DivMod(A, b).q) = DivMod(A, b).q)
  /\ (b > 1 => FromBase(ToBase(A, b), b) = A /\ \A i \in 1..Len(ToBase(A, b)) : ToBase(A, b)[i] \in 0..(b - 1))
=============================================================================
