------------------------------ MODULE Canister ------------------------------
(***************************************************************************)
(* State machine of the Bitcoin canister (ic-btc-canister).                *)
(*                                                                         *)
(* One action per message (atomic section) of the code:                    *)
(*   Heartbeat  = ingest | fetch-send ... fetch-reply | process + fees     *)
(*   the bitcoin_* endpoints, get_config, get_blockchain_info (queries),   *)
(*   set_config, upgrade (pre_upgrade ; post_upgrade).                     *)
(*                                                                         *)
(* The machine state is packed in a record `m` by the operators below so   *)
(* that the phases of one message can be composed; the TLA+ variables are  *)
(* the fields of that record.                                              *)
(*                                                                         *)
(*   cfg    configuration  [net, thr, api, syncing, gate, lazy, fees]      *)
(*   stable stable chain, Seq(block), heights 0 .. Len-1                   *)
(*   tree   [anchor, arr]  unstable blocks in arrival order                *)
(*   ing    [b, k]         block being ingested (0 = none), operations done*)
(*   next   set of <<block, height>>: validated announced headers          *)
(*   sync   [fetching, resp]  fetch flag and stored (partial) response     *)
(*   fee    [tip, vals]    fee percentile cache (tip = 0: never computed)  *)
(*   cnt    counters       [rej, deser, ins, reqInit, reqFollow, sendtx,   *)
(*                          burnt, respC, respP, respF, blkC]  (responses  *)
(*                          by kind, blocks of complete responses)         *)
(*   now    current time (seconds relative to genesis time)                *)
(*   known  blocks of the tree whose insertion-time metrics are present    *)
(*   flight set of heartbeat ids suspended at the get_successors await     *)
(*   walks  client-side state of paginated get_utxos walks                 *)
(***************************************************************************)
EXTENDS Tree, Fees

CONSTANTS MaxHeaders,      \* 100 in the code; scaled in model-checking instances
          MaxFeeTxs,       \* 10000 in the code
          SyncedSlack,     \* 2
          DepthBoundOverride  \* 0 = the real adaptive bound, otherwise the bound itself

VARIABLES cfg, stable, tree, ing, next, sync, fee, cnt, now, known, flight, walks

vars == <<uni, cfg, stable, tree, ing, next, sync, fee, cnt, now, known, flight, walks>>

St == [cfg |-> cfg, stable |-> stable, T |-> tree, ing |-> ing, next |-> next, sync |-> sync,
       fee |-> fee, cnt |-> cnt, now |-> now, known |-> known, flight |-> flight, walks |-> walks]

Install(m) ==
  /\ cfg' = m.cfg /\ stable' = m.stable /\ tree' = m.T /\ ing' = m.ing /\ next' = m.next
  /\ sync' = m.sync /\ fee' = m.fee /\ cnt' = m.cnt /\ now' = m.now /\ known' = m.known
  /\ flight' = m.flight /\ walks' = m.walks

NoIng  == [b |-> 0, k |-> 0]
NoResp == [k |-> "none"]
NoReq  == [k |-> "none"]
NoFee  == [tip |-> 0, vals |-> <<>>]
ZeroCnt == [rej |-> 0, deser |-> 0, ins |-> 0, reqInit |-> 0, reqFollow |-> 0, sendtx |-> 0, burnt |-> 0,
            respC |-> 0, respP |-> 0, respF |-> 0, blkC |-> 0]

InitState(c) ==
  [cfg |-> c, stable |-> <<>>, T |-> [anchor |-> 1, arr |-> <<1>>], ing |-> NoIng, next |-> {},
   sync |-> [fetching |-> FALSE, resp |-> NoResp], fee |-> NoFee, cnt |-> ZeroCnt, now |-> 0,
   known |-> {1}, flight |-> {}, walks |-> {}]

Bound(m) == IF DepthBoundOverride = 0 THEN RealDepthBound(Len(m.T.arr), m.cfg.thr)
            ELSE DepthBoundOverride

StableChild(m) == MechChild(m.T, m.cfg.thr, m.cfg.net, Bound(m))
Best(m) == BestChainOf(m.T)
TipOf(m) == LET bc == Best(m) IN bc[Len(bc)]
StableHeightOf(m) == Len(m.stable)          \* = Height(m.T.anchor) when not corrupted
TipHeightOf(m) == Len(m.stable) + Len(Best(m)) - 1

(***************************************************************************)
(* Ingestion of stable blocks with a per-round budget of operations        *)
(* (state.rs ingest_stable_blocks_into_utxoset, utxo_set.rs).              *)
(* Returns [m, status] with status in {"idle", "worked", "paused", "trap"}.*)
(***************************************************************************)
RECURSIVE IngestRun(_, _, _)
IngestRun(m, B, worked) ==
  IF m.ing.b # 0 THEN
    LET remaining == NumOps(m.ing.b) - m.ing.k IN
    IF remaining > B
    THEN [m |-> [m EXCEPT !.ing.k = @ + B], status |-> "paused"]
    ELSE \* the block completes; the anchor is popped using the CURRENT tree and threshold
      LET child == StableChild(m) IN
      IF child = 0 \/ m.ing.b # m.T.anchor
      THEN [m |-> m, status |-> "trap"]     \* pop() finds no stable child: unwrap on None
      ELSE LET T2  == Advance(m.T, child)
               st2 == Append(m.stable, m.ing.b)
               m2  == [m EXCEPT !.stable = st2, !.T = T2, !.ing = NoIng,
                                !.next = {p \in m.next : p[2] > Len(st2)},
                                !.known = m.known \cap InTree(T2)]
           IN IngestRun(m2, B - remaining, TRUE)
  ELSE
    IF StableChild(m) = 0
    THEN [m |-> m, status |-> IF worked THEN "worked" ELSE "idle"]
    ELSE IngestRun([m EXCEPT !.ing = [b |-> m.T.anchor, k |-> 0]], B, worked)

\* the header store: all stable blocks plus the anchor once its ingestion has started
HdrStore(m) == IF m.ing.b = 0 THEN m.stable ELSE Append(m.stable, m.ing.b)

(***************************************************************************)
(* Header time rule (validation crate, C11 decides the full rule set; on   *)
(* regtest the target is constant so time is what varies).                 *)
(***************************************************************************)
MedianTimePast(b) ==      \* median of the up to 11 timestamps ending with b
  LET c == LastOfChain(b, 11)
      n == Len(c)
      ts == SortSeq([i \in 1..n |-> Time(c[Len(c) - n + i])], LAMBDA x, y : x < y)
  IN ts[(n \div 2) + 1]

TimeOK(m, b) == Time(b) > MedianTimePast(Par(b)) /\ Time(b) <= m.now + 7200

(***************************************************************************)
(* Processing of a complete response (heartbeat.rs maybe_process_response, *)
(* state.rs insert_block / insert_next_block_headers).                     *)
(* An item is [b, as]: `as` = "valid" means the exact bytes of block b;    *)
(* other classes are byte-level defects made by the environment.           *)
(***************************************************************************)
Undecodable == {"truncated", "garbage", "empty"}

BlockVerdict(m, item) ==
  IF item.as \in Undecodable THEN "deser"
  ELSE IF item.as # "valid" THEN "ins"
  ELSE IF item.b = 0 THEN "ins"
  ELSE IF Par(item.b) \notin InTree(m.T) \/ item.b \in InTree(m.T) THEN "ins"
  ELSE IF ~TimeOK(m, item.b) THEN "ins"
  ELSE "ok"

PushBlock(m, b) ==
  [m EXCEPT !.T.arr = Append(@, b),
            !.next = {p \in @ : p[1] # b},
            !.known = @ \cup {b}]

NextBlocks(m) == {p[1] : p \in m.next}

\* does the announced header of block b connect (through other announced headers) to the tree?
RECURSIVE ConnectsVia(_, _)
ConnectsVia(m, x) ==       \* x = the parent to start from
  IF x \in NextBlocks(m) THEN ConnectsVia(m, Par(x))
  ELSE x \in InTree(m.T)

\* ("long": the 80 header bytes followed by more bytes.  state.rs insert_next_block_headers decodes with
\* consensus_decode, which reads the header and ignores what follows, so such a blob is the header; no
\* listed property says otherwise.  Found by the thorough tier as a disagreement between this specification
\* - which had it fail - and the code: the specification was wrong.)
HeaderVerdict(m, item) ==    \* "skip" | "ok" | "fail"
  IF item.as \notin {"valid", "long"} \/ item.b = 0 THEN "fail"
  ELSE IF item.b \in NextBlocks(m) THEN "skip"
  ELSE IF Par(item.b) = 0 THEN "fail"
  ELSE IF ~ConnectsVia(m, Par(item.b)) THEN "fail"
  ELSE IF Par(item.b) \in InTree(m.T) /\ item.b \in InTree(m.T) THEN "fail"   \* AlreadyKnown
  ELSE IF ~TimeOK(m, item.b) THEN "fail"
  ELSE "ok"

RECURSIVE InsertHeaders(_, _)
InsertHeaders(m, items) ==
  IF Len(items) = 0 THEN m
  ELSE LET v == HeaderVerdict(m, items[1]) IN
       IF v = "fail" THEN m
       ELSE IF v = "skip" THEN InsertHeaders(m, Tail(items))
       ELSE InsertHeaders([m EXCEPT !.next = @ \cup {<<items[1].b, Height(items[1].b)>>}],
                          Tail(items))

RECURSIVE InsertBlocks(_, _, _)
InsertBlocks(m, blocks, hdrs) ==
  IF Len(blocks) = 0 THEN InsertHeaders(m, hdrs)
  ELSE LET v == BlockVerdict(m, blocks[1]) IN
       IF v = "deser" THEN [m EXCEPT !.cnt.deser = @ + 1]
       ELSE IF v = "ins" THEN [m EXCEPT !.cnt.ins = @ + 1]
       ELSE InsertBlocks(PushBlock(m, blocks[1].b), Tail(blocks), hdrs)

Process(m) ==
  IF m.sync.resp.k = "complete"
  THEN InsertBlocks([m EXCEPT !.sync.resp = NoResp], m.sync.resp.blocks, m.sync.resp.next)
  ELSE m

(***************************************************************************)
(* Fee percentiles (api/fee_percentiles.rs).                               *)
(***************************************************************************)
RECURSIVE RecentFees(_, _)
RecentFees(chainRev, n) ==      \* chainRev: best chain from the tip backwards
  IF Len(chainRev) = 0 \/ n <= 0 THEN <<>>
  ELSE LET r == FeeRates(chainRev[1])
           take == IF Len(r) <= n THEN r ELSE SubSeq(r, 1, n)
       IN take \o RecentFees(Tail(chainRev), n - Len(take))

\* nearest-rank percentiles 0..100 of a bag given as a sequence: the element of rank
\* max(1, ceil(p * n / 100)) of the sorted bag
Percentiles(rates) ==
  IF Len(rates) = 0 THEN <<>> ELSE
  LET n == Len(rates)
      sorted == SortSeq(rates, LAMBDA a, b : a < b)
      CeilDiv(a, b) == (a + b - 1) \div b
      \* (SubSeq makes TLC build an explicit tuple instead of keeping a lazily evaluated function)
  IN SubSeq([q \in 1..101 |-> LET r == CeilDiv((q - 1) * n, 100) IN sorted[IF r < 1 THEN 1 ELSE r]], 1, 101)

\* the answer of a fee query and the cache afterwards
FeeEval(m) ==
  LET bc  == Best(m)
      tip == bc[Len(bc)]
  IN IF m.fee.tip = tip THEN [ans |-> m.fee.vals, fee |-> m.fee]
     ELSE LET rates == RecentFees(Reverse(bc), MaxFeeTxs) IN
          IF Len(rates) = 0 /\ m.fee.tip # 0 THEN [ans |-> m.fee.vals, fee |-> m.fee]
          ELSE LET p == Percentiles(rates)
               IN [ans |-> p, fee |-> [tip |-> tip, vals |-> p]]

FeeStep(m) == IF m.cfg.lazy THEN m ELSE [m EXCEPT !.fee = FeeEval(m).fee]

(***************************************************************************)
(* Block fetching (heartbeat.rs maybe_fetch_blocks, guard.rs).             *)
(***************************************************************************)
RequestFor(m) ==
  IF m.sync.resp.k = "complete" THEN NoReq
  ELSE IF m.sync.resp.k = "partial" THEN [k |-> "followup", i |-> m.sync.resp.got]
  ELSE LET pre == PreorderFast(m.T)
       IN [k |-> "initial", anchor |-> m.T.anchor, processed |-> Tail(pre)]

WillCall(m) == m.cfg.syncing /\ ~m.sync.fetching /\ RequestFor(m).k # "none"

CountRequest(m, req) ==
  IF req.k = "initial" THEN [m EXCEPT !.cnt.reqInit = @ + 1]
  ELSE [m EXCEPT !.cnt.reqFollow = @ + 1]

\* the reply must fit the request (source domain of C13)
Conformant(req, reply) ==
  \/ reply.k = "reject"
  \/ req.k = "initial" /\ reply.k \in {"complete", "partial"}
  \/ req.k = "followup" /\ reply.k = "followup"

ApplyReply(m, reply) ==
  LET m1 == [m EXCEPT !.sync.fetching = FALSE] IN
  IF reply.k = "none" THEN m1
  ELSE IF reply.k = "reject" THEN [m1 EXCEPT !.cnt.rej = @ + 1, !.sync.resp = NoResp]
  ELSE IF reply.k = "complete"
       THEN [m1 EXCEPT !.sync.resp = [k |-> "complete", blocks |-> reply.blocks, next |-> reply.next],
                       !.cnt.respC = @ + 1, !.cnt.blkC = @ + Len(reply.blocks)]
  ELSE IF reply.k = "partial"
       THEN [m1 EXCEPT !.sync.resp = [k |-> "partial", item |-> reply.item, n |-> reply.n,
                                      got |-> 0, next |-> reply.next],
                       !.cnt.respP = @ + 1]
  ELSE \* follow-up page appended to the stored partial response
       LET r == m.sync.resp
           g == r.got + 1
       IN IF g = r.n
          THEN [m1 EXCEPT !.sync.resp = [k |-> "complete", blocks |-> <<r.item>>, next |-> r.next],
                          !.cnt.respF = @ + 1]
          ELSE [m1 EXCEPT !.sync.resp.got = g, !.cnt.respF = @ + 1]

(***************************************************************************)
(* Heartbeat.                                                              *)
(***************************************************************************)
\* first half: everything up to the await, given the outcome r = [m, status] of the ingest phase.
\* Returns [m, req, st] where st is
\*   "ingest"  the heartbeat ended in the ingest phase,
\*   "await"   a request was issued; the heartbeat is suspended,
\*   "done"    no request; response processed and fees computed,
\*   "trap"    the message trapped.
HbFirstWith(m, r) ==
  IF r.status = "trap" THEN [m |-> m, req |-> NoReq, st |-> "trap"]
  ELSE IF r.status # "idle" THEN [m |-> r.m, req |-> NoReq, st |-> "ingest"]
  ELSE IF WillCall(m)
       THEN LET req == RequestFor(m)
            IN [m |-> CountRequest([m EXCEPT !.sync.fetching = TRUE], req), req |-> req, st |-> "await"]
       ELSE [m |-> FeeStep(Process(m)), req |-> NoReq, st |-> "done"]

\* heartbeat.rs maybe_burn_cycles: the first thing every heartbeat does when burn_cycles is enabled; the
\* unit is what the runtime reports as burnt by one call (the whole balance on the IC)
Burn(m) == IF m.cfg.burn THEN [m EXCEPT !.cnt.burnt = @ + 1] ELSE m

HbFirst(m, B) == HbFirstWith(Burn(m), IngestRun(Burn(m), B, FALSE))

\* the second half, for a heartbeat whose call (if any) is answered at once
HbSecond(f, reply) ==
  IF f.st = "await" THEN [m |-> ApplyReply(f.m, reply), req |-> f.req, st |-> "called"]
  ELSE f

\* a whole heartbeat whose call (if any) is answered at once
HbFull(m, B, reply) == HbSecond(HbFirst(m, B), reply)

(***************************************************************************)
(* The ingest phase as OBSERVED (trace validation).  IngestRun above fixes *)
(* how many operations a budget buys (one per input / output, OP_RETURN    *)
(* included), which is how the code counts today but is not demanded by    *)
(* any property.  Trace validation therefore takes the number of blocks    *)
(* completed and the pause position from the log and checks that they are  *)
(* ADMISSIBLE: never early, never withheld, monotone, progress, and a      *)
(* budget consumption that is consistent under either way of counting      *)
(* OP_RETURN outputs.                                                      *)
(***************************************************************************)
\* operations done in block b at the logged position <<b, tx index, input index, output index>>
\* (0-based indices; for a coinbase the logged input index is 1 once its outputs are reached)
OpsDoneAt(b, ti, ii, oi) ==
  LET before == SumSeq([x \in 1..ti |-> Len(TxOps(Txs(b)[x]))])
      t == Txs(b)[ti + 1]
  IN before + (IF IsCoinbase(t) THEN 0 ELSE ii) + oi

\* cost of the operations k+1 .. k2 of block b: [lo, hi] = without / with OP_RETURN outputs
OpCost(b, k, k2) ==
  LET ops == BlockOps(b)
      isOpRet(i) == ops[i].kind = "out" /\ Outs(ops[i].t)[ops[i].i].a = OpRet
      n == IF k2 > k THEN k2 - k ELSE 0
      r == Cardinality({i \in (k + 1)..k2 : isOpRet(i)})
  IN [lo |-> n - r, hi |-> n]

\* complete `n` blocks starting from m; accumulates cost and flags
RECURSIVE CompleteBlocks(_, _, _)
CompleteBlocks(acc, n, first) ==
  IF n = 0 THEN acc
  ELSE LET m == acc.m
           starting == m.ing.b = 0
           b == IF starting THEN m.T.anchor ELSE m.ing.b
           k == IF starting THEN 0 ELSE m.ing.k
           child == StableChild(m)
           c == OpCost(b, k, NumOps(b))
       IN IF child = 0
          THEN [acc EXCEPT !.flags = @ \cup {IF starting THEN "early" ELSE "noStableChildAtCompletion"}]
          ELSE LET T2 == Advance(m.T, child)
                   st2 == Append(m.stable, b)
                   m2 == [m EXCEPT !.stable = st2, !.T = T2, !.ing = NoIng,
                                   !.next = {p \in m.next : p[2] > Len(st2)},
                                   !.known = m.known \cap InTree(T2)]
               IN CompleteBlocks([m |-> m2, lo |-> acc.lo + c.lo, hi |-> acc.hi + c.hi, flags |-> acc.flags],
                                 n - 1, FALSE)

\* nDone = number of blocks whose ingestion completed in this round; pos = logged position afterwards
\* (<<>> if no ingestion is in progress).  Returns [m, status, lo, hi, flags].
IngestObserved(m, nDone, pos) ==
  LET a == CompleteBlocks([m |-> m, lo |-> 0, hi |-> 0, flags |-> {}], nDone, TRUE)
      m1 == a.m
  IN IF Len(pos) = 0
     THEN [m |-> m1, lo |-> a.lo, hi |-> a.hi,
           status |-> IF nDone > 0 THEN "worked" ELSE "idle",
           flags |-> a.flags \cup (IF m1.ing.b # 0 THEN {"ingestionLost"} ELSE {})
                             \cup (IF m1.ing.b = 0 /\ StableChild(m1) # 0 THEN {"withheld"} ELSE {})]
     ELSE LET b == pos[1]
              k2 == OpsDoneAt(b, pos[2], pos[3], pos[4])
              cont == m1.ing.b # 0
              k == IF cont THEN m1.ing.k ELSE 0
              c == OpCost(b, k, k2)
              fl == (IF b # m1.T.anchor THEN {"notTheAnchor"} ELSE {})
                    \cup (IF cont /\ b # m1.ing.b THEN {"otherBlock"} ELSE {})
                    \cup (IF ~cont /\ StableChild(m1) = 0 THEN {"early"} ELSE {})
                    \cup (IF k2 < k THEN {"wentBack"} ELSE {})
                    \cup (IF k2 >= NumOps(b) THEN {"pausedAfterLastOperation"} ELSE {})
          IN [m |-> [m1 EXCEPT !.ing = [b |-> b, k |-> k2]], lo |-> a.lo + c.lo, hi |-> a.hi + c.hi,
              status |-> "paused", flags |-> a.flags \cup fl]

\* is the observed round admissible for a budget of B operations (B >= 1; a large B = unlimited)?
BudgetOK(r, B) ==
  IF r.status = "paused" THEN r.lo <= B /\ B <= r.hi ELSE r.lo <= B
ProgressOK(m, r, B) ==
  (B >= 1 /\ (m.ing.b # 0 \/ StableChild(m) # 0)) => (r.hi >= 1 \/ r.status = "worked")

(***************************************************************************)
(* set_config and upgrade.                                                 *)
(***************************************************************************)
ApplyDelta(c, d) == [f \in DOMAIN c |-> IF f \in DOMAIN d THEN d[f] ELSE c[f]]

SetConfig(m, d) == [m EXCEPT !.cfg = ApplyDelta(@, d)]

\* pre_upgrade ; post_upgrade(d): the fetch state is reset, suspended heartbeats are never
\* resumed, insertion-time metrics are not serialised; everything else survives.
Upgrade(m, d) ==
  [m EXCEPT !.sync = [fetching |-> FALSE, resp |-> NoResp], !.flight = {}, !.known = {},
            !.cfg = ApplyDelta(@, d)]

(***************************************************************************)
(* Query semantics (reference definitions, Layer A).                       *)
(***************************************************************************)
\* C14: refusal conditions of the bitcoin_* data endpoints
MaxNextHeight(m) == MaxOf({p[2] : p \in m.next})
Synced(m) == LET h == TipHeightOf(m)
             IN h + SyncedSlack >= (IF MaxNextHeight(m) > h THEN MaxNextHeight(m) ELSE h)
Refuses(m, ep, net) ==
  \/ ~m.cfg.api
  \/ net # m.cfg.net
  \/ ep # "send_transaction" /\ m.cfg.gate /\ ~Synced(m)

\* C02: get_blockchain_info
QInfo(m) ==
  LET tip == TipOf(m) IN
  [height |-> TipHeightOf(m), tip |-> tip, time |-> Time(tip), diff |-> Diff(tip)]

\* the number of UTXOs as get_blockchain_info counts them: stable set (OP_RETURN excluded)
\* plus the output/input counts of the unstable best chain (OP_RETURN included)
StableTop(m) == IF Len(m.stable) = 0 THEN 0 ELSE m.stable[Len(m.stable)]
UtxosLength(m) ==
  LET bc == Best(m)
      v == Cardinality(LedgerAt(StableTop(m))) + SumSeq([i \in 1..Len(bc) |-> UtxoDelta(bc[i])])
  IN IF v < 0 THEN 0 ELSE v

\* C04: the block that a request with min_confirmations = c is answered as of.
\* c = 0 (no filter) is the tip of the best chain.
CutBlock(m, chain, c) == IF c = 0 THEN chain[Len(chain)] ELSE chain[CutLen(m.T, chain, c)]

\* entries as the API reports them
ApiEntry(e) == <<e.t, e.j, e.v, e.h>>

\* C01 / C04: complete (all pages) answer of get_utxos for a valid address
UtxosView(m, a, c) ==
  LET bc == Best(m) IN
  IF c > Len(bc) THEN [err |-> "MinConfirmationsTooLarge"]
  ELSE LET b == CutBlock(m, bc, c)
       IN [tip |-> b, tipHeight |-> Height(b), entries |-> {ApiEntry(e) : e \in AddrEntries(a, b)}]

\* C05: balance = sum over the same view
BalanceView(m, a, c) ==
  LET bc == Best(m) IN
  IF c > Len(bc) THEN [err |-> "MinConfirmationsTooLarge"]
  ELSE [ok |-> Balance(a, CutBlock(m, bc, c))]

\* C07: header ranges
FullChain(m) == m.stable \o Best(m)
HeadersView(m, s, e) ==       \* e = -1: no end height
  LET H == TipHeightOf(m) IN
  IF s > H THEN [err |-> "StartHeightDoesNotExist"]
  ELSE IF e # -1 /\ e < s THEN [err |-> "StartHeightLargerThanEndHeight"]
  ELSE IF e # -1 /\ e > H THEN [err |-> "EndHeightDoesNotExist"]
  ELSE LET e1 == IF e = -1 THEN H ELSE e
           last == IF e1 < s + MaxHeaders - 1 THEN e1 ELSE s + MaxHeaders - 1
       IN [tipHeight |-> last, headers |-> SubSeq(FullChain(m), s + 1, last + 1)]

(***************************************************************************)
(* Cycles (C16).  cfg.fees = [ub, ur, um,  bal, balm,  pct, pctm,  hb, hr, *)
(* hm,  sb, sp]: base / per-ten-instructions rate / maximum of get_utxos,  *)
(* flat fee / maximum of get_balance and of the fee percentiles, base /    *)
(* rate / maximum of get_block_headers, base / per-byte of send_transaction*)
(***************************************************************************)
\* Required / Charged / Enough are defined in Fees.tla (a module of its own so that TLAPS can prove the
\* unbounded statements of spec/proofs/FeesProofs.tla about exactly these operators)

(***************************************************************************)
(* send_transaction (C19): cls = "valid" iff the payload is exactly the    *)
(* consensus serialisation of one transaction.                             *)
(***************************************************************************)
SendTxOutcome(m, net, cls, len, avail) ==
  IF Refuses(m, "send_transaction", net) THEN "refuse"
  ELSE IF ~Enough(m.cfg.fees, "send_transaction", len, avail) THEN "cycles"
  ELSE IF cls = "valid" THEN "ok" ELSE "malformed"

SendTx(m, net, cls, len, avail) ==
  IF SendTxOutcome(m, net, cls, len, avail) = "ok" THEN [m EXCEPT !.cnt.sendtx = @ + 1] ELSE m

(***************************************************************************)
(* Bookkeeping that the unstable tree requires (C20), declaratively.       *)
(***************************************************************************)
Creates(b) == UNION {{<<t, j>> : j \in 1..Len(Outs(t))} : t \in {Txs(b)[i] : i \in 1..Len(Txs(b))}}
SpendsSeq(b) == FoldLeft(LAMBDA acc, t : acc \o Ins(t), <<>>, Txs(b))
Spends(b) == {SpendsSeq(b)[i] : i \in 1..Len(SpendsSeq(b))}
RefCount(m, o) == Cardinality({b \in InTree(m.T) : o \in Creates(b)})
                + Cardinality({b \in InTree(m.T) : o \in Spends(b)})
CachedOutpoints(m) == UNION {Creates(b) \cup Spends(b) : b \in InTree(m.T)}

(***************************************************************************)
(* Safety properties over the state machine.                               *)
(***************************************************************************)
\* C03: the stable chain only grows, by the old anchor, and the new anchor is on the served chain
StableAppendOnly ==
  [][/\ IsPrefix(stable, stable')
     /\ Len(stable') <= Len(stable) + Len(tree.arr)]_vars

\* C13: at most one request outstanding; flag set iff a heartbeat is suspended
SingleFlight == Cardinality(flight) <= 1 /\ (sync.fetching <=> flight # {})

\* structural sanity
TreeWellFormed ==
  /\ Len(tree.arr) >= 1 /\ tree.arr[1] = tree.anchor
  /\ \A i \in 2..Len(tree.arr) : Par(tree.arr[i]) \in {tree.arr[j] : j \in 1..(i - 1)}
  /\ Len(stable) = Height(tree.anchor)
  /\ \A i \in 1..Len(stable) : Height(stable[i]) = i - 1
  /\ (Len(stable) > 0 => Par(tree.anchor) = stable[Len(stable)])
  /\ (ing.b # 0 => ing.b = tree.anchor /\ ing.k <= NumOps(ing.b))

=============================================================================
