------------------------------ MODULE MC_Tree ------------------------------
(***************************************************************************)
(* Bounded instance: every fork tree (shape, arrival order, difficulty     *)
(* assignment) of up to MaxBlocks blocks, delivered in every order         *)
(* (orphans, duplicates, blocks extending stable-only ancestors included), *)
(* with threshold changes, upgrades, announced headers and time-sliced     *)
(* ingestion at every point.  Blocks carry a single coinbase (one          *)
(* operation); transaction content is the subject of MC_Ledger.            *)
(*                                                                         *)
(* Checks C02 (best chain), C03 (finality), C04 (cut), C07 (header chain), *)
(* C10 (admission), C14 (announced-header bookkeeping and gate).           *)
(***************************************************************************)
EXTENDS Canister

CONSTANTS MaxBlocks, Diffs, Thrs, Nets, MaxNext

MCInit ==
  /\ uni = [par |-> <<0>>, diff |-> <<1>>, time |-> <<0>>, btx |-> <<<<1>>>>, tin |-> <<<<>>>>,
            tout |-> <<<<[a |-> 0, v |-> 0]>>>>, vsz |-> <<100>>, h |-> <<0>>]
  /\ \E net \in Nets, thr \in Thrs :
       LET c == [net |-> net, thr |-> thr, api |-> TRUE, syncing |-> TRUE, gate |-> TRUE, lazy |-> TRUE, burn |-> FALSE,
                fees |-> [ub |-> 0, ur |-> 0, um |-> 0, bal |-> 0, balm |-> 0, pct |-> 0, pctm |-> 0,
                          hb |-> 0, hr |-> 0, hm |-> 0, sb |-> 0, sp |-> 0]]
           m == InitState(c)
       IN /\ cfg = m.cfg /\ stable = m.stable /\ tree = m.T /\ ing = m.ing /\ next = m.next
          /\ sync = m.sync /\ fee = m.fee /\ cnt = m.cnt /\ now = 1000000 /\ known = m.known
          /\ flight = m.flight /\ walks = m.walks

\* the environment mines a block on top of any known block
Mine(p, d) ==
  /\ NumBlocks < MaxBlocks
  /\ LET t == Len(uni.tin) + 1
     IN uni' = [par  |-> Append(uni.par, p),
                diff |-> Append(uni.diff, d),
                time |-> Append(uni.time, Time(p) + 600),
                btx  |-> Append(uni.btx, <<t>>),
                tin  |-> Append(uni.tin, <<>>),
                tout |-> Append(uni.tout, <<[a |-> 1, v |-> 5]>>),
                vsz  |-> Append(uni.vsz, 100),
                h    |-> Append(uni.h, uni.h[p] + 1)]
  /\ UNCHANGED <<cfg, stable, tree, ing, next, sync, fee, cnt, now, known, flight, walks>>

Items == {[b |-> b, as |-> "valid"] : b \in AllBlocks}

\* a heartbeat; if it calls the block source, the source answers with any single block
\* (valid bytes of any known block: new, duplicate, orphan, stale) and up to one announced header
Heartbeat(B, blk, hdrs) ==
  /\ LET reply == [k |-> "complete", blocks |-> blk, next |-> hdrs]
         f == HbFull(St, B, reply)
     IN /\ f.st # "trap"
        /\ Install(f.m)
  /\ UNCHANGED uni

Config(thr) == Install(SetConfig(St, [thr |-> thr])) /\ UNCHANGED uni
DoUpgrade == Install(Upgrade(St, [x \in {} |-> 0])) /\ UNCHANGED uni

MCNext ==
  \/ \E p \in AllBlocks, d \in Diffs : Mine(p, d)
  \/ \E B \in {1, 1000} : \E i \in Items :
       \/ Heartbeat(B, <<i>>, <<>>)
       \/ \E h \in Items : Cardinality(next) < MaxNext /\ Heartbeat(B, <<i>>, <<h>>)
  \/ \E B \in {1, 1000} : Heartbeat(B, <<>>, <<>>)
  \/ \E thr \in Thrs : thr # cfg.thr /\ Config(thr)
  \/ DoUpgrade

MCSpec == MCInit /\ [][MCNext]_vars

\* C08 "ingestion finishes after finitely many rounds", for every sequence of budgets: under weak fairness of
\* the heartbeat alone (whatever its budget) a paused ingestion always completes - unless the situation of
\* known finding KF_ThresholdRaiseWhilePaused has been reached (the threshold was raised while the anchor's
\* ingestion was paused: the completing heartbeat traps, which is not a step; TLC finds exactly this behaviour
\* when the exception is removed)
HbTick == \E B \in {1, 1000} : Heartbeat(B, <<>>, <<>>)
LiveSpec == MCSpec /\ WF_vars(HbTick)
KFStuck == ing.b # 0 /\ MechChild(tree, cfg.thr, cfg.net, Bound(St)) = 0
IngestionFinishes == [](ing.b # 0 => <>(ing.b = 0 \/ KFStuck))
IngestionFinishesNoException == [](ing.b # 0 => <>(ing.b = 0))

\* counters and caches only record history: they are kept out of the state identity
MCView == <<uni, cfg, stable, tree, ing, next, sync>>

(***************************************************************************)
(* Properties.                                                             *)
(***************************************************************************)
\* C02: the mechanism (bottom-up, first child wins ties) serves the declarative best chain
BestChainIsHeaviest == BestChainOf(tree) = BestDecl(tree) /\ BestChainRec(tree) = BestDecl(tree)

\* C03: on mainnet the mechanism decides exactly the rule as worded in the property
CurBound == Bound(St)
MechIsRule ==
  cfg.net = "mainnet" =>
    LET c == MechChild(tree, cfg.thr, cfg.net, CurBound)
        ok == {x \in KidSet(tree, tree.anchor) : DiffRule(tree, cfg.thr, x)}
    IN IF c = 0 THEN ok = {} ELSE ok = {c}

\* C03: on any network, a child chosen by the difficulty part satisfies the rule as worded
DiffPartSound ==
  LET c == MechChild(tree, cfg.thr, "mainnet", CurBound)
  IN c # 0 => DiffRule(tree, cfg.thr, c)

\* C03: the child the anchor advances to lies on the chain being served
NewAnchorOnServedChain ==
  LET c == MechChild(tree, cfg.thr, cfg.net, CurBound)
  IN c # 0 => c = BestDecl(tree)[2]

\* C03: the stable chain only grows, one block per advance, the appended block is the old anchor,
\* and blocks leave the tree only when the anchor advances
Finality ==
  [][/\ IsPrefix(stable, stable')
     /\ (stable' # stable => /\ tree'.anchor \in InTree(tree)
                             /\ Append(stable', tree'.anchor) = stable \o PathTo(tree, tree'.anchor))
     /\ (stable' = stable => InTree(tree) \subseteq InTree(tree'))]_vars

\* C03: never withheld: when a heartbeat that was not budget-limited ends, nothing is stabilisable
\* (checked as: whenever no ingestion is paused and the last message was an unlimited heartbeat ...
\*  expressed on states: if a stable child exists then the next unlimited heartbeat removes it)
NotWithheld ==
  [][(ing.b = 0 /\ ing'.b = 0 /\ stable' # stable) =>
       MechChild(tree', cfg'.thr, cfg'.net, Bound(St')) = 0]_vars

\* C04: on a fork-free tree the tip of a request with c confirmations is at height H - c + 1
ForkFree == \A b \in InTree(tree) : Cardinality(KidSet(tree, b)) <= 1
CutOnChain ==
  ForkFree =>
    LET bc == BestChainOf(tree)
    IN \A c \in 1..Len(bc) : Height(CutBlock(St, bc, c)) = TipHeightOf(St) - c + 1

\* C04: a request within bounds always has a block to answer as of
CutDefined == LET bc == BestChainOf(tree) IN \A c \in 1..Len(bc) : CutLen(tree, bc, c) >= 1

\* C07: the served chain is linked and heights are exact
ChainLinked ==
  LET fc == FullChain(St)
  IN /\ \A i \in 1..Len(fc) : Height(fc[i]) = i - 1
     /\ \A i \in 2..Len(fc) : Par(fc[i]) = fc[i - 1]
     /\ HdrStore(St) = SubSeq(fc, 1, Len(HdrStore(St)))

\* C14 / C20: announced headers never name a block of the tree nor a height at or below the anchor's
NextHeadersClean ==
  \A p \in next : p[1] \notin InTree(tree) /\ p[2] > Len(stable) /\ p[2] = Height(p[1])

\* the one-pass maps used by trace validation agree with the recursive definitions
FastAgree == FastMapsAgree(tree) /\ \A c \in 0..(Len(tree.arr) + 1) :
               CutLen(tree, BestChainOf(tree), c) = CutLenRef(tree, BestChainOf(tree), c)

\* C10: the tree holds exactly connected, distinct blocks (admission is by construction; this
\* checks that no action breaks the shape)
Shape == TreeWellFormed

=============================================================================
