-------------------------------- MODULE Mech --------------------------------
(***************************************************************************)
(* Layer B: the MECHANISMS by which the code answers ledger queries,       *)
(* modelled next to the reference semantics of Universe.tla.               *)
(*                                                                         *)
(*   stable UTXO set + address index + balances   (utxo_set.rs)            *)
(*   the delta of the block being ingested, reverted by the readers        *)
(*                                                 (utxos_delta.rs)        *)
(*   the outpoints cache of unstable blocks: tx outs with reference        *)
(*   counts, per-block per-address added / removed outpoints               *)
(*                                                 (outpoints_cache.rs)    *)
(*   AddressUtxoSet: apply the blocks of a chain on top of the stable set  *)
(*                                                 (address_utxoset.rs)    *)
(*                                                                         *)
(* MC_Ledger checks on every reachable state of bounded histories that the *)
(* mechanisms give exactly the answers of the reference semantics (C01,    *)
(* C04, C05, C08) and that the cache holds exactly what the tree requires  *)
(* (C20).                                                                  *)
(***************************************************************************)
EXTENDS Canister

VARIABLES sU,      \* stable UTXO set: set of entries [t, j, a, v, h] (already partly updated while ingesting)
          sBal,    \* balances map: address -> value (absent = 0 is modelled as 0)
          dAdd,    \* delta of the ingesting block: entries added so far (address-bearing only)
          dRem,    \* delta of the ingesting block: entries removed so far (address-bearing only)
          opc,     \* outpoints cache: <<t, j>> -> [a, v, h, cnt]; absent = not in DOMAIN
          addB,    \* block -> address -> Seq(outpoint) added
          remB     \* block -> address -> Seq(outpoint) removed

mvars == <<sU, sBal, dAdd, dRem, opc, addB, remB>>

Addrs == 1..2        \* addresses used by the bounded instances
OutP(e) == <<e.t, e.j>>

EmptyPerAddr == [a \in Addrs |-> <<>>]

(***************************************************************************)
(* Unstable bookkeeping: insert_outpoints / OutPointsCache::remove.        *)
(***************************************************************************)
\* the tx out an input refers to, as insert_outpoints finds it: cache, then the block itself, then
\* the stable set with the in-progress delta reverted
StableGet(o) ==
  LET r == {e \in dRem : OutP(e) = o}
      a == {e \in dAdd : OutP(e) = o}
      s == {e \in sU : OutP(e) = o}
  IN IF r # {} THEN CHOOSE e \in r : TRUE
     ELSE IF a # {} THEN [t |-> 0, j |-> 0, a |-> 0, v |-> 0, h |-> -1]     \* added by the ingesting block: hidden
     ELSE IF s # {} THEN CHOOSE e \in s : TRUE
     ELSE [t |-> 0, j |-> 0, a |-> 0, v |-> 0, h |-> -1]

\* fold over the transactions of block b at height h
InsertOutpoints(b, h) ==
  LET stepIn(acc, o) ==
        LET info == IF o \in DOMAIN acc.cache THEN acc.cache[o]
                    ELSE IF o \in DOMAIN acc.local THEN acc.local[o]
                    ELSE LET e == StableGet(o) IN [a |-> e.a, v |-> e.v, h |-> e.h, cnt |-> 0]
            loc == IF o \in DOMAIN acc.local THEN [acc.local EXCEPT ![o].cnt = @ + 1]
                   ELSE [x \in DOMAIN acc.local \cup {o} |-> IF x = o THEN [a |-> info.a, v |-> info.v, h |-> info.h, cnt |-> 1]
                                                             ELSE acc.local[x]]
        IN [acc EXCEPT !.local = loc,
                       !.rem = IF info.a \in Addrs THEN [@ EXCEPT ![info.a] = Append(@, o)] ELSE @]
      stepOut(acc, tj) ==
        LET o == <<tj[1], tj[2]>>
            out == Outs(tj[1])[tj[2]]
            loc == IF o \in DOMAIN acc.local THEN [acc.local EXCEPT ![o].cnt = @ + 1]
                   ELSE [x \in DOMAIN acc.local \cup {o} |-> IF x = o THEN [a |-> out.a, v |-> out.v, h |-> h, cnt |-> 1]
                                                             ELSE acc.local[x]]
        IN [acc EXCEPT !.local = loc,
                       !.add = IF out.a \in Addrs THEN [@ EXCEPT ![out.a] = Append(@, o)] ELSE @]
      stepTx(acc, t) ==
        LET a1 == FoldLeft(stepIn, acc, Ins(t))
        IN FoldLeft(stepOut, a1, [j \in 1..Len(Outs(t)) |-> <<t, j>>])
      r == FoldLeft(stepTx, [cache |-> opc, local |-> [x \in {} |-> 0], add |-> EmptyPerAddr, rem |-> EmptyPerAddr], Txs(b))
      merged == [o \in DOMAIN opc \cup DOMAIN r.local |->
                   IF o \in DOMAIN opc
                   THEN IF o \in DOMAIN r.local THEN [opc[o] EXCEPT !.cnt = @ + r.local[o].cnt] ELSE opc[o]
                   ELSE r.local[o]]
  IN [opc |-> merged, add |-> r.add, rem |-> r.rem]

MechPush(b, h) ==
  LET r == InsertOutpoints(b, h)
  IN /\ opc' = r.opc
     /\ addB' = [x \in DOMAIN addB \cup {b} |-> IF x = b THEN r.add ELSE addB[x]]
     /\ remB' = [x \in DOMAIN remB \cup {b} |-> IF x = b THEN r.rem ELSE remB[x]]

\* remove the bookkeeping of a set of blocks (the popped anchor and the discarded forks)
RefsOf(b) == SpendsSeq(b) \o FoldLeft(LAMBDA acc, t : acc \o [j \in 1..Len(Outs(t)) |-> <<t, j>>], <<>>, Txs(b))
DropBlocks(cache, bs) ==
  LET dec(c, o) == IF c[o].cnt = 1 THEN [x \in DOMAIN c \ {o} |-> c[x]] ELSE [c EXCEPT ![o].cnt = @ - 1]
      dropOne(c, b) == FoldLeft(dec, c, RefsOf(b))
  IN FoldLeft(dropOne, cache, SetToSeq(bs))

MechDrop(bs) ==
  /\ opc' = DropBlocks(opc, bs)
  /\ addB' = [x \in DOMAIN addB \ bs |-> addB[x]]
  /\ remB' = [x \in DOMAIN remB \ bs |-> remB[x]]

(***************************************************************************)
(* Stable ingestion, one operation at a time.                              *)
(***************************************************************************)
BalAfter(bal, a, dv) == IF a \in Addrs THEN [bal EXCEPT ![a] = @ + dv] ELSE bal

MechOp(b, k) ==     \* apply operation k+1 of block b (height = Len(stable))
  LET op == BlockOps(b)[k + 1]
      h == Len(stable)
  IN IF op.kind = "in"
     THEN LET o == <<Ins(op.t)[op.i][1], Ins(op.t)[op.i][2]>>
              e == CHOOSE x \in sU : OutP(x) = o
              wasAdded == e \in dAdd
          IN /\ sU' = sU \ {e}
             /\ sBal' = BalAfter(sBal, e.a, 0 - e.v)
             /\ dAdd' = IF wasAdded THEN dAdd \ {e} ELSE dAdd
             /\ dRem' = IF e.a \in Addrs /\ ~wasAdded THEN dRem \cup {e} ELSE dRem
     ELSE LET out == Outs(op.t)[op.i]
              e == [t |-> op.t, j |-> op.i, a |-> out.a, v |-> out.v, h |-> h]
          IN IF out.a = OpRet THEN UNCHANGED <<sU, sBal, dAdd, dRem>>
             ELSE /\ sU' = sU \cup {e}
                  /\ sBal' = BalAfter(sBal, out.a, out.v)
                  /\ dAdd' = IF out.a \in Addrs THEN dAdd \cup {e} ELSE dAdd
                  /\ UNCHANGED dRem

(***************************************************************************)
(* Readers.                                                                *)
(***************************************************************************)
\* utxo_set.rs get_balance: the balances map with the in-progress delta reverted
MechStableBalance(a) ==
  sBal[a] + SumValues({e \in dRem : e.a = a}) - SumValues({e \in dAdd : e.a = a})

\* utxo_set.rs get_address_outpoints + get_utxo: the address's stable entries as the readers see them
MechStableEntries(a) ==
  {e \in sU : e.a = a /\ e \notin dAdd} \cup {e \in dRem : e.a = a}

\* AddressUtxoSet: apply the blocks of `chain` (anchor first) on top of the stable view
MechUtxos(a, chain) ==
  LET h0 == Len(stable)
      step(acc, i) ==
        LET b == chain[i]
            rem == {remB[b][a][x] : x \in 1..Len(remB[b][a])}
            add == {[t |-> o[1], j |-> o[2], a |-> a, v |-> opc[o].v, h |-> h0 + i - 1] :
                      o \in {addB[b][a][x] : x \in 1..Len(addB[b][a])}}
        IN [removed |-> acc.removed \cup rem, added |-> acc.added \cup add]
      r == FoldLeft(step, [removed |-> {}, added |-> {}], [i \in 1..Len(chain) |-> i])
  IN {e \in MechStableEntries(a) : OutP(e) \notin r.removed} \cup {e \in r.added : OutP(e) \notin r.removed}

\* get_balance.rs: stable balance plus the per-block deltas of the applied blocks
MechBalance(a, chain) ==
  MechStableBalance(a)
  + SumSeq([i \in 1..Len(chain) |->
             SumSeq([x \in 1..Len(addB[chain[i]][a]) |-> opc[addB[chain[i]][a][x]].v])
           - SumSeq([x \in 1..Len(remB[chain[i]][a]) |-> opc[remB[chain[i]][a][x]].v])])

(***************************************************************************)
(* Refinement: mechanisms = reference.                                     *)
(***************************************************************************)
\* the chain a request with c confirmations is answered on
AppliedChain(m, c) == LET bc == Best(m) IN IF c = 0 THEN bc ELSE SubSeq(bc, 1, CutLen(m.T, bc, c))

UtxosAgree ==
  \A a \in Addrs : \A c \in 0..Len(Best(St)) :
    LET ch == AppliedChain(St, c)
    IN MechUtxos(a, ch) = AddrEntries(a, ch[Len(ch)])

BalanceAgrees ==
  \A a \in Addrs : \A c \in 0..Len(Best(St)) :
    LET ch == AppliedChain(St, c)
    IN MechBalance(a, ch) = Balance(a, ch[Len(ch)])

\* C20: the cache holds exactly the outpoints the tree's blocks refer to, with exact counts
CacheExact ==
  /\ DOMAIN opc = CachedOutpoints(St)
  /\ \A o \in DOMAIN opc : opc[o].cnt = RefCount(St, o)
  /\ DOMAIN addB = InTree(tree) /\ DOMAIN remB = InTree(tree)

\* the block-wise formulations of Universe.tla (used for speed on large universes) agree with the
\* transaction-by-transaction definitions
BlockwiseAgrees ==
  \A b \in AllBlocks :
    LET L == IF Par(b) = 0 THEN {} ELSE LedgerAt(Par(b))
    IN /\ ApplyBlock(L, b, Height(b)) = ApplyBlockSeq(L, b, Height(b))
       /\ LedgerAt(b) = LedgerAtRec(b) /\ Height(b) = HeightRec(b) /\ ChainTo(b) = ChainToRec(b)
       /\ (TxValidBlock(b) <=> TxValidBlockFrom(b, L))

\* the stable set, with the in-progress delta reverted, is the ledger as of the last stable block
StableIsLedger ==
  (sU \ {e \in sU : \E k \in 1..ing.k : LET op == BlockOps(ing.b)[k] IN op.kind = "out" /\ e.t = op.t /\ e.j = op.i})
  \cup {e \in LedgerAt(StableTop(St)) :
         \E k \in 1..ing.k : LET op == BlockOps(ing.b)[k] IN op.kind = "in" /\ <<Ins(op.t)[op.i][1], Ins(op.t)[op.i][2]>> = OutP(e)}
  = LedgerAt(StableTop(St))

=============================================================================
