----------------------------- MODULE MC_TreeGen -----------------------------
(***************************************************************************)
(* Behaviour generator (specification -> implementation): the actions of   *)
(* MC_Tree with a history variable.  Run with `tlc -simulate`; every       *)
(* behaviour that reaches GenDepth steps is printed as one JSON line and   *)
(* converted by lib/tlcgen.py into a harness scenario (real blocks, real   *)
(* heartbeats); the recorded execution is then validated by TraceCanister. *)
(***************************************************************************)
EXTENDS MC_Tree, Json

CONSTANT GenDepth
VARIABLE hist

GInit == MCInit /\ hist = <<[a |-> "init", net |-> cfg.net, thr |-> cfg.thr]>>

Rec(r) == hist' = Append(hist, r)

GNext ==
  /\ Len(hist) <= GenDepth
  /\ \/ \E p \in AllBlocks, d \in Diffs : Mine(p, d) /\ Rec([a |-> "mine", p |-> p, d |-> d])
     \/ \E B \in {1, 1000} : \E i \in Items :
          \/ Heartbeat(B, <<i>>, <<>>) /\ Rec([a |-> "hb", budget |-> B, blocks |-> <<i.b>>, hdrs |-> <<>>])
          \/ \E h \in Items : /\ Cardinality(next) < MaxNext
                              /\ Heartbeat(B, <<i>>, <<h>>)
                              /\ Rec([a |-> "hb", budget |-> B, blocks |-> <<i.b>>, hdrs |-> <<h.b>>])
     \/ \E B \in {1, 1000} : \E i, j \in Items :
          i.b # j.b /\ Heartbeat(B, <<i, j>>, <<>>) /\ Rec([a |-> "hb", budget |-> B, blocks |-> <<i.b, j.b>>, hdrs |-> <<>>])
     \/ \E B \in {1, 1000} : Heartbeat(B, <<>>, <<>>) /\ Rec([a |-> "hb", budget |-> B, blocks |-> <<>>, hdrs |-> <<>>])
     \/ \E thr \in Thrs : thr # cfg.thr /\ Config(thr) /\ Rec([a |-> "thr", thr |-> thr])
     \/ DoUpgrade /\ Rec([a |-> "upgrade"])

GSpec == GInit /\ [][GNext]_<<vars, hist>>

Emit == Len(hist) # GenDepth + 1 \/ PrintT("@@" \o ToJson([kind |-> "BEHAVIOUR", hist |-> hist]))
=============================================================================
