-------------------------------- MODULE Tree --------------------------------
(***************************************************************************)
(* The tree of unstable blocks: best chain, stability rule, stability      *)
(* counts.  A tree is a record T = [anchor, arr]:                          *)
(*   arr = the unstable blocks in ARRIVAL order, anchor first.             *)
(* The children of a block are ordered by arrival (blocktree.rs `extend`   *)
(* pushes at the end; serialisation keeps the order).  Every operator is a *)
(* function of the universe and of the tree it is given, so that it can be *)
(* evaluated on intermediate trees inside one message.                     *)
(***************************************************************************)
EXTENDS Universe

InTree(T) == {T.arr[i] : i \in 1..Len(T.arr)}
Kids(T, b) == SelectSeq(T.arr, LAMBDA x : x # T.anchor /\ Par(x) = b)
KidSet(T, b) == {x \in InTree(T) : x # T.anchor /\ Par(x) = b}
MaxOf(S) == IF S = {} THEN 0 ELSE Max(S)

RECURSIVE Depth(_, _)
Depth(T, b) == 1 + MaxOf({Depth(T, k) : k \in KidSet(T, b)})

\* difficulty-based depth: maximum accumulated difficulty from b to a leaf
RECURSIVE DD(_, _)
DD(T, b) == Diff(b) + MaxOf({DD(T, k) : k \in KidSet(T, b)})

RECURSIVE Desc(_, _)
Desc(T, b) == {b} \cup UNION {Desc(T, k) : k \in KidSet(T, b)}

RECURSIVE Preorder(_, _)
Preorder(T, b) == <<b>> \o FoldLeft(LAMBDA acc, k : acc \o Preorder(T, k), <<>>, Kids(T, b))

Leaves(T) == {b \in InTree(T) : KidSet(T, b) = {}}
RelDepth(T, b) == Height(b) - Height(T.anchor) + 1

(***************************************************************************)
(* The same quantities for every block of the tree at once, computed in    *)
(* one pass over the arrival order (children always arrive after their     *)
(* parent).  Trace validation uses these; the model-checking instances     *)
(* check that they agree with the recursive definitions above.             *)
(***************************************************************************)
\* height relative to the anchor (anchor = 0)
RelHeightMap(T) ==
  FoldLeft(LAMBDA h, x : IF x = T.anchor THEN h ELSE [h EXCEPT ![x] = h[Par(x)] + 1],
           [b \in InTree(T) |-> 0], T.arr)

DepthMap(T) ==
  FoldLeft(LAMBDA d, x : IF x = T.anchor THEN d
                         ELSE [d EXCEPT ![Par(x)] = IF d[x] + 1 > @ THEN d[x] + 1 ELSE @],
           [b \in InTree(T) |-> 1], Reverse(T.arr))

\* m[b] = greatest difficulty-based depth among the children of b (0 if none);
\* the difficulty-based depth of b is Diff(b) + m[b]
MaxKidDDMap(T) ==
  FoldLeft(LAMBDA m, x : IF x = T.anchor THEN m
                         ELSE [m EXCEPT ![Par(x)] = IF Diff(x) + m[x] > @ THEN Diff(x) + m[x] ELSE @],
           [b \in InTree(T) |-> 0], Reverse(T.arr))
DDMap(T) == LET m == MaxKidDDMap(T) IN [b \in InTree(T) |-> Diff(b) + m[b]]

\* path anchor .. tip for a block of the tree
PathTo(T, tip) == LET c == ChainTo(tip) IN SubSeq(c, Height(T.anchor) + 1, Len(c))

SumDiff(p) == FoldLeft(LAMBDA acc, x : acc + Diff(x), 0, p)

(***************************************************************************)
(* Best chain, DECLARATIVE (the oracle of C02): among all anchor-to-leaf   *)
(* paths the one with the greatest accumulated difficulty; ties: more      *)
(* blocks; then received first (lexicographically smallest sequence of     *)
(* child positions).                                                       *)
(***************************************************************************)
KidIndex(T, b, c) == CHOOSE i \in 1..Len(Kids(T, b)) : Kids(T, b)[i] = c
IdxSeq(T, p) == [i \in 1..(Len(p) - 1) |-> KidIndex(T, p[i], p[i + 1])]

RECURSIVE LexLess(_, _)
LexLess(s, t) ==
  IF Len(s) = 0 THEN Len(t) > 0
  ELSE IF Len(t) = 0 THEN FALSE
  ELSE IF s[1] < t[1] THEN TRUE
  ELSE IF s[1] > t[1] THEN FALSE
  ELSE LexLess(Tail(s), Tail(t))

BestDecl(T) ==
  LET P == {PathTo(T, x) : x \in Leaves(T)}
      Beats(q, p) == SumDiff(q) > SumDiff(p) \/ (SumDiff(q) = SumDiff(p) /\ Len(q) > Len(p))
      Top == {p \in P : \A q \in P : ~Beats(q, p)}
  IN CHOOSE p \in Top : \A q \in Top \ {p} : LexLess(IdxSeq(T, p), IdxSeq(T, q))

(***************************************************************************)
(* Best chain, MECHANISM (blocktree.rs main_chain_by_difficulty_inner):     *)
(* bottom-up, key (accumulated difficulty, length), strict > keeps the     *)
(* first child on ties.  Returns <<difficulty, length, chain>>.            *)
(***************************************************************************)
RECURSIVE BestRec(_, _)
BestRec(T, b) ==
  LET k == Kids(T, b) IN
  IF Len(k) = 0 THEN <<Diff(b), 1, <<b>>>>
  ELSE LET rs == [i \in 1..Len(k) |-> BestRec(T, k[i])]
           Better(x, y) == x[1] > y[1] \/ (x[1] = y[1] /\ x[2] > y[2])
           best == CHOOSE i \in 1..Len(k) :
                     /\ \A j \in 1..Len(k) : ~Better(rs[j], rs[i])
                     /\ \A j \in 1..(i - 1) : Better(rs[i], rs[j])
       IN <<Diff(b) + rs[best][1], 1 + rs[best][2], <<b>> \o rs[best][3]>>

BestChainRec(T) == BestRec(T, T.anchor)[3]

\* The same mechanism in one pass (used everywhere; BestRec re-evaluates subtrees and is only
\* practical on the small trees of the model-checking instances, which check that both agree).
\* best[b] = [dd, len, kid]: accumulated difficulty and length of the best chain BELOW b and
\* the child it starts with (0 if b is a leaf).  Children are visited in reverse arrival order,
\* so >= lets an earlier child replace a later one on ties: the first child wins.
BestMap(T) ==
  FoldLeft(LAMBDA best, x :
             IF x = T.anchor THEN best
             ELSE LET p  == Par(x)
                      cd == Diff(x) + best[x].dd
                      cl == 1 + best[x].len
                      b0 == best[p]
                  IN IF cd > b0.dd \/ (cd = b0.dd /\ cl >= b0.len)
                     THEN [best EXCEPT ![p] = [dd |-> cd, len |-> cl, kid |-> x]]
                     ELSE best,
           [b \in InTree(T) |-> [dd |-> 0, len |-> 0, kid |-> 0]], Reverse(T.arr))

\* (built with a fold into an explicit tuple: a recursively defined function is re-evaluated by TLC at
\* every application, which made every use of the chain quadratic in its length)
BestChainOf(T) ==
  LET best == BestMap(T)
      n == best[T.anchor].len + 1
  IN FoldLeft(LAMBDA acc, i : Append(acc, best[acc[Len(acc)]].kid), <<T.anchor>>, [i \in 1..(n - 1) |-> i])

(***************************************************************************)
(* Stability rule.                                                         *)
(***************************************************************************)
ThresholdOf(T, thr) == thr * Diff(T.anchor)

\* as worded in C03 (difficulty part)
DiffRule(T, thr, c) ==
  /\ DD(T, c) >= ThresholdOf(T, thr)
  /\ \A s \in KidSet(T, T.anchor) \ {c} :
        DD(T, c) >= DD(T, s) /\ DD(T, c) - DD(T, s) >= ThresholdOf(T, thr)

\* adaptive depth bound of unstable_blocks.rs:45 in integer arithmetic:
\* round(500 - n * (500 - min(thr, 499)) / 1500), min(thr, 499) from 1500 blocks on.
\* An exact tie at .5 is resolved upwards here; the code computes in floating point and
\* may resolve it either way, see RealDepthBoundOK.
RealDepthBound(n, thr) ==
  LET lo == IF thr < 499 THEN thr ELSE 499
  IN IF n >= 1500 THEN lo
     ELSE (750000 - n * (500 - lo) + 750) \div 1500

\* v is an acceptable rounding of the bound
RealDepthBoundOK(n, thr, v) ==
  LET lo == IF thr < 499 THEN thr ELSE 499
      x  == 750000 - n * (500 - lo)          \* = 1500 * exact value
  IN IF n >= 1500 THEN v = lo
     ELSE 1500 * v - x <= 750 /\ x - 1500 * v <= 750

\* MECHANISM of unstable_blocks.rs get_stable_child: stable sort of the anchor's children
\* by DD, take the last and the second to last; depth escape on testnet/regtest with the
\* given bound.  Returns the child or 0.
MechChild(T, thr, net, bound) ==
  LET k == Kids(T, T.anchor) IN
  IF Len(k) = 0 THEN 0 ELSE
  LET n == Len(k)
      ddm == DDMap(T)
      dpm == DepthMap(T)
      dd == [i \in 1..n |-> ddm[k[i]]]
      \* rank that a stable ascending sort gives to position i
      Rank(i) == Cardinality({j \in 1..n : dd[j] < dd[i] \/ (dd[j] = dd[i] /\ j < i)}) + 1
      AtRank(r) == CHOOSE i \in 1..n : Rank(i) = r
      li     == AtRank(n)
      last   == k[li]
      si     == IF n >= 2 THEN AtRank(n - 1) ELSE 0
      second == IF si = 0 THEN 0 ELSE k[si]
      ld     == dpm[last]
      sd     == IF second = 0 THEN 0 ELSE dpm[second]
      diffd  == IF sd > ld THEN 0 ELSE ld - sd                      \* saturating_sub
      escape == /\ net \in {"testnet", "regtest"}
                /\ ld >= bound
                /\ diffd >= bound
      thd    == ThresholdOf(T, thr)
  IN IF escape THEN last
     ELSE IF dd[li] < thd THEN 0
     ELSE IF second # 0 /\ dd[li] - dd[si] < thd THEN 0
     ELSE last

\* the tree after the anchor advanced to `child`
\* (descendants by one pass over the arrival order - parents arrive before children - instead of the
\* recursive Desc, whose depth is the length of the chain)
DescFast(T, b) == FoldLeft(LAMBDA S, x : IF x # T.anchor /\ Par(x) \in S THEN S \cup {x} ELSE S, {b}, T.arr)
Advance(T, child) ==
  LET keep == TLCEval(DescFast(T, child))
  IN [anchor |-> child, arr |-> SelectSeq(T.arr, LAMBDA x : x \in keep)]

(***************************************************************************)
(* Stability count and the min_confirmations cut (C04).                    *)
(***************************************************************************)
StabilityCount(T, b) ==
  Depth(T, b) - MaxOf({Depth(T, x) : x \in {y \in InTree(T) \ {b} : Height(y) = Height(b)}})

\* all stability counts at once
StabilityMap(T) ==
  LET dpm == DepthMap(T)
      rh  == RelHeightMap(T)
  IN [b \in InTree(T) |-> dpm[b] - MaxOf({dpm[y] : y \in {z \in InTree(T) \ {b} : rh[z] = rh[b]}})]

\* number of leading blocks of `chain` whose stability count is >= c
CutLen(T, chain, c) ==
  LET sm == StabilityMap(T)
      bad == {i \in 1..Len(chain) : sm[chain[i]] < c}
  IN IF bad = {} THEN Len(chain) ELSE Min(bad) - 1

\* the same by the recursive definitions (reference)
RECURSIVE CutLenRef(_, _, _)
CutLenRef(T, chain, c) ==
  IF Len(chain) = 0 THEN 0
  ELSE IF StabilityCount(T, chain[1]) < c THEN 0
  ELSE 1 + CutLenRef(T, Tail(chain), c)

\* children of every block in arrival order, and the pre-order of the tree, without recursion
KidsMap(T) ==
  FoldLeft(LAMBDA km, x : IF x = T.anchor \/ Par(x) \notin DOMAIN km THEN km ELSE [km EXCEPT ![Par(x)] = Append(@, x)],
           [b \in InTree(T) |-> <<>>], T.arr)
PreorderFast(T) ==
  LET km == KidsMap(T)
      step(st, i) ==
        IF Len(st.stack) = 0 THEN st
        ELSE LET top == st.stack[Len(st.stack)]
             IN [stack |-> SubSeq(st.stack, 1, Len(st.stack) - 1) \o Reverse(km[top]), out |-> Append(st.out, top)]
  IN FoldLeft(step, [stack |-> <<T.anchor>>, out |-> <<>>], [i \in 1..Len(T.arr) |-> i]).out

FastMapsAgree(T) ==
  /\ PreorderFast(T) = Preorder(T, T.anchor)
  /\ \A b \in InTree(T) : DescFast(T, b) = Desc(T, b) /\ Height(b) = HeightRec(b) /\ ChainTo(b) = ChainToRec(b)
  /\ \A b \in InTree(T) : DepthMap(T)[b] = Depth(T, b) /\ DDMap(T)[b] = DD(T, b)
                            /\ StabilityMap(T)[b] = StabilityCount(T, b)
                            /\ RelHeightMap(T)[b] = Height(b) - Height(T.anchor)

=============================================================================
