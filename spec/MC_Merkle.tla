------------------------------ MODULE MC_Merkle ------------------------------
(***************************************************************************)
(* For every n <= MaxN and every list m over the n transaction ids with    *)
(* Len(m) <= MaxLen: if m has the same merkle root as the original list    *)
(* 1..n and differs from it, then m repeats a transaction -- so the        *)
(* uniqueness check rejects the whole CVE-2012-2459 family -- and the      *)
(* original list is acceptable.  Every root-preserving mutation found is   *)
(* printed; the harness replays them on real blocks.                       *)
(***************************************************************************)
EXTENDS BlockRules, Json

CONSTANTS MaxN, MaxLen

VARIABLES n, m

\* the lists are built one transaction at a time, so that every list up to MaxLen is a state
Init == n \in 1..MaxN /\ m = <<>>
Next == /\ Len(m) < MaxLen
        /\ \E x \in 1..n : m' = Append(m, x)
        /\ UNCHANGED n
Spec == Init /\ [][Next]_<<n, m>>

Preserving == Len(m) >= 1 /\ RootMatches(m, n) /\ m # Ident(n)

MutationsRepeat ==
  Preserving => /\ HasDup(m)
                /\ PrintT("@@" \o ToJson([kind |-> "MUTATION", n |-> n, m |-> m]))

OriginalAccepted == Acceptable(Ident(n), n)

OnlyOriginalAccepted == (Len(m) >= 1 /\ Acceptable(m, n)) => m = Ident(n)
=============================================================================
