------------------------------ MODULE MC_Merkle ------------------------------
(***************************************************************************)
(* For every n <= MaxN and every list m over the n transaction ids with    *)
(* Len(m) <= MaxLen: if m has the same merkle root as the original list    *)
(* 1..n and differs from it, then m repeats a transaction -- so the        *)
(* uniqueness check rejects the whole CVE-2012-2459 family -- and the      *)
(* original list is acceptable.  Every root-preserving mutation found is   *)
(* printed; the harness replays them on real blocks.                       *)
(***************************************************************************)
EXTENDS BlockRules, Json

CONSTANTS MaxN, MaxLen

VARIABLES n, m

Lists(k) == UNION {[1..len -> 1..k] : len \in 1..MaxLen}

Init == n \in 1..MaxN /\ m \in Lists(n)
Next == UNCHANGED <<n, m>>
Spec == Init /\ [][Next]_<<n, m>>

Preserving == RootMatches(m, n) /\ m # Ident(n)

MutationsRepeat ==
  Preserving => /\ HasDup(m)
                /\ PrintT("@@" \o ToJson([kind |-> "MUTATION", n |-> n, m |-> m]))

OriginalAccepted == Acceptable(Ident(n), n)

OnlyOriginalAccepted == Acceptable(m, n) => m = Ident(n)
=============================================================================
