-------------------------------- MODULE Fees --------------------------------
(***************************************************************************)
(* C16: the cycles a call must carry and the cycles it is charged, as a    *)
(* function of the fee table f (short keys: ub / ur / um = get_utxos base, *)
(* per ten instructions, maximum; bal / balm; pct / pctm; hb / hr / hm =   *)
(* get_block_headers; sb / sp = send_transaction base, per byte).          *)
(***************************************************************************)
EXTENDS Integers

MinOf2(a, b) == IF a < b THEN a ELSE b

\* the amount a call must carry to be accepted at all
Required(f, ep, len) ==
  CASE ep = "get_utxos" -> f.um
    [] ep = "get_balance" -> f.balm
    [] ep = "get_current_fee_percentiles" -> f.pctm
    [] ep = "get_block_headers" -> f.hm
    [] ep = "send_transaction" -> f.sb + f.sp * len

\* cycles accepted from an update call that passed the gate and carried enough;
\* success = the request did not fail with a request-level error
Charged(f, ep, success, instr, len) ==
  CASE ep = "get_utxos" -> f.ub + (IF success THEN MinOf2((instr \div 10) * f.ur, f.um - f.ub) ELSE 0)
    [] ep = "get_balance" -> f.bal
    [] ep = "get_current_fee_percentiles" -> f.pct
    [] ep = "get_block_headers" -> f.hb + (IF success THEN MinOf2((instr \div 10) * f.hr, f.hm - f.hb) ELSE 0)
    [] ep = "send_transaction" -> f.sb + f.sp * len

\* avail = -1 stands for "more than any maximum"
Enough(f, ep, len, avail) == avail < 0 \/ avail >= Required(f, ep, len)
=============================================================================
