------------------------------- MODULE BigNat -------------------------------
(***************************************************************************)
(* Natural numbers beyond TLC's 32-bit integers: little-endian sequences   *)
(* of digits in base Base, normalised (no most-significant zero digits;    *)
(* zero is the empty sequence).  Every intermediate value stays below      *)
(* Base * Base + Base, so Base = 10000 is safe for TLC.                    *)
(* MC_BigNat checks all operations against native arithmetic on a small    *)
(* base.                                                                   *)
(***************************************************************************)
EXTENDS Integers, Sequences, SequencesExt, Folds

CONSTANT Base

Digit(x, i) == IF i <= Len(x) THEN x[i] ELSE 0

RECURSIVE Norm(_)
Norm(x) == IF Len(x) = 0 THEN x
           ELSE IF x[Len(x)] = 0 THEN Norm(SubSeq(x, 1, Len(x) - 1)) ELSE x

RECURSIVE FromInt(_)
FromInt(n) == IF n = 0 THEN <<>> ELSE <<n % Base>> \o FromInt(n \div Base)

\* only for values known to be small
RECURSIVE ToInt(_)
ToInt(x) == IF Len(x) = 0 THEN 0 ELSE x[1] + Base * ToInt(Tail(x))

IsNat(x) == \A i \in 1..Len(x) : x[i] \in 0..(Base - 1)

Add(x, y) ==
  LET n == IF Len(x) > Len(y) THEN Len(x) ELSE Len(y)
      r == FoldLeft(LAMBDA acc, i : LET s == Digit(x, i) + Digit(y, i) + acc.c
                                    IN [d |-> Append(acc.d, s % Base), c |-> s \div Base],
                    [d |-> <<>>, c |-> 0], [i \in 1..n |-> i])
  IN Norm(IF r.c = 0 THEN r.d ELSE Append(r.d, r.c))

\* -1, 0, 1
Cmp(x, y) ==
  IF Len(x) # Len(y) THEN (IF Len(x) < Len(y) THEN -1 ELSE 1)
  ELSE LET diff == {i \in 1..Len(x) : x[i] # y[i]}
       IN IF diff = {} THEN 0
          ELSE LET m == CHOOSE i \in diff : \A j \in diff : j <= i
               IN IF x[m] < y[m] THEN -1 ELSE 1

Leq(x, y) == Cmp(x, y) <= 0
Lt(x, y) == Cmp(x, y) < 0
MinNat(x, y) == IF Leq(x, y) THEN x ELSE y

\* x - y for x >= y
Sub(x, y) ==
  LET r == FoldLeft(LAMBDA acc, i : LET s == Digit(x, i) - Digit(y, i) - acc.b
                                    IN IF s < 0 THEN [d |-> Append(acc.d, s + Base), b |-> 1]
                                       ELSE [d |-> Append(acc.d, s), b |-> 0],
                    [d |-> <<>>, b |-> 0], [i \in 1..Len(x) |-> i])
  IN Norm(r.d)

\* x * k for 0 <= k < Base
MulDigit(x, k) ==
  LET r == FoldLeft(LAMBDA acc, i : LET s == x[i] * k + acc.c
                                    IN [d |-> Append(acc.d, s % Base), c |-> s \div Base],
                    [d |-> <<>>, c |-> 0], [i \in 1..Len(x) |-> i])
  IN Norm(IF r.c = 0 THEN r.d ELSE Append(r.d, r.c))

Shift(x, n) == IF Len(x) = 0 THEN x ELSE [i \in 1..n |-> 0] \o x      \* x * Base^n

Mul(x, y) ==
  FoldLeft(LAMBDA acc, j : Add(acc, Shift(MulDigit(x, y[j]), j - 1)), <<>>, [j \in 1..Len(y) |-> j])

\* x * k for any small natural k (k < 2^31)
MulInt(x, k) == Mul(x, FromInt(k))

\* x * k^n
RECURSIVE MulPow(_, _, _)
MulPow(x, k, n) ==
  IF n = 0 THEN x
  ELSE LET y == MulInt(x, k)
       IN IF Len(y) >= 0 THEN MulPow(y, k, n - 1) ELSE y     \* the test forces y (TLC evaluates lazily: 26 nested thunks otherwise)

\* floor(x / d) and x mod d for a small divisor (d * Base must stay below 2^31)
DivMod(x, d) ==
  LET r == FoldLeft(LAMBDA acc, i : LET cur == acc.r * Base + x[Len(x) + 1 - i]
                                    IN [q |-> <<cur \div d>> \o acc.q, r |-> cur % d],
                    [q |-> <<>>, r |-> 0], [i \in 1..Len(x) |-> i])
  IN [q |-> Norm(r.q), r |-> r.r]

\* the digits of x in base b (little endian), b small
RECURSIVE ToBase(_, _)
ToBase(x, b) == IF Len(x) = 0 THEN <<>>
                ELSE LET dm == DivMod(x, b) IN <<dm.r>> \o ToBase(dm.q, b)

\* the number with the given little-endian digits in base b
FromBase(ds, b) == FoldLeft(LAMBDA acc, i : Add(MulInt(acc, b), FromInt(ds[Len(ds) + 1 - i])), <<>>, [i \in 1..Len(ds) |-> i])

\* q = floor(a / b) (b > 0), stated without division
IsFloorDiv(q, a, b) == Leq(Mul(q, b), a) /\ Lt(a, Mul(Add(q, FromInt(1)), b))

=============================================================================
