SPECIFICATION GSpec
CONSTANTS
  MaxHeaders = 3
  MaxFeeTxs = 3
  SyncedSlack = 2
  DepthBoundOverride = 0
  MaxBlocks = 9
  Diffs = {1, 2, 3}
  Thrs = {1, 2, 3}
  Nets = {"regtest"}
  MaxNext = 3
  GenDepth = 30
INVARIANT Emit
CHECK_DEADLOCK FALSE
