---------------------------- MODULE TraceHeaders ----------------------------
(***************************************************************************)
(* Validation of recorded header decisions of the implementation           *)
(* (validation crate) against HeaderRules.tla.  The trace builds header    *)
(* chains (reset / append / bulk) and asks about candidate headers; for    *)
(* each candidate the implementation's required target, timestamp verdict  *)
(* and (where proof of work can be produced or real headers are used) the  *)
(* full validate_header verdict are compared with the specification.       *)
(***************************************************************************)
EXTENDS HeaderRules, Json, IOUtils

Rec == ndJsonDeserialize(IOEnv.TRACE)
VARIABLES l, net, base, chain
R == Rec[l]
Has(r, f) == f \in DOMAIN r

Report(tag, exp, got) ==
  PrintT("@@" \o ToJson([kind |-> "MISMATCH", l |-> l, ev |-> R.fn, tag |-> tag, exp |-> exp, got |-> got,
                         paused |-> FALSE, upg |-> FALSE]))
Agree(tag, exp, got) == exp = got \/ Report(tag, exp, got)

Hdr(r) == [t |-> r.t, e |-> r.e, m |-> r.m]

Reset == R.fn = "hdr_reset" /\ net' = R.net /\ base' = R.height /\ chain' = <<Hdr(R)>>
AppendOne == R.fn = "hdr_append" /\ chain' = Append(chain, Hdr(R)) /\ UNCHANGED <<net, base>>
Bulk == R.fn = "hdr_bulk" /\ UNCHANGED <<net, base>>
        /\ chain' = chain \o [i \in 1..R.n |-> [t |-> R.t0 + (i - 1) * R.dt, e |-> R.e, m |-> R.m]]

Candidate ==
  /\ R.fn = "hdr_candidate" /\ UNCHANGED <<net, base, chain>>
  /\ LET c == Hdr(R)
         req == RequiredAt(net, base, chain, c.t)
         timeExp == IF TimeTooNew(c.t, R.now) THEN "future" ELSE IF TimeTooOld(chain, c.t) THEN "old" ELSE "ok"
     IN /\ Agree("header.height", base + Len(chain), R.height)
        /\ Agree("header.requiredTarget", BN!ToBase(Decode(req.e, req.m), 256), R.out.reqBytes)
        /\ Agree("header.time", timeExp, R.out.time)
        /\ R.out.verdict = "none" \/
           LET ok == Accept(net, base, chain, R.now, c, R.powOK) IN
           /\ Agree("header.accepted", ok, R.out.verdict = "ok")
           /\ (ok \/ Agree("header.error", TRUE, R.out.verdict \in Errors(net, base, chain, R.now, c, R.powOK)))

Init == l = 1 /\ net = "mainnet" /\ base = 0 /\ chain = <<[t |-> 0, e |-> 29, m |-> 65535]>>
Next ==
  /\ l <= Len(Rec) /\ l' = l + 1
  /\ (Reset \/ AppendOne \/ Bulk \/ Candidate)
Spec == Init /\ [][Next]_<<l, net, base, chain>>

Accepted ==
  \/ TLCGet("stats").diameter = Len(Rec) + 1
  \/ PrintT("@@" \o ToJson([kind |-> "UNCONSUMED", diameter |-> TLCGet("stats").diameter, records |-> Len(Rec)])) /\ FALSE
=============================================================================
