----------------------------- MODULE HeaderRules -----------------------------
(***************************************************************************)
(* C11: the Bitcoin consensus rules for block headers.                     *)
(*                                                                         *)
(* A header chain is a sequence of [t, e, m]: timestamp and the compact    *)
(* target split into exponent byte e and 24-bit mantissa m (bits =         *)
(* e * 2^24 + m); chain[i] is the header at height i - 1.  256-bit         *)
(* targets are BigNat values (base 1000 so that division by the target     *)
(* timespan stays within TLC's integers).                                  *)
(*                                                                         *)
(* Interval / TargetSpan are constants so that bounded instances can scale *)
(* them down; the trace instance uses 2016 / 1209600.                      *)
(***************************************************************************)
EXTENDS Integers, Sequences, FiniteSets, SequencesExt, TLC

CONSTANTS Interval, TargetSpan

BN == INSTANCE BigNat WITH Base <- 1000

(***************************************************************************)
(* Compact encoding.                                                       *)
(***************************************************************************)
\* value of compact (e, m): m * 256^(e-3); a set sign bit (m > 0x7fffff) decodes to zero
Pow2(k) == 2 ^ k
Decode(e, m) ==
  IF m > 8388607 THEN <<>>
  ELSE IF e <= 3 THEN BN!FromInt(m \div Pow2(8 * (3 - e)))
  ELSE BN!MulPow(BN!FromInt(m), 256, e - 3)

\* lossy compact encoding of a target (Target::to_compact_lossy / arith_uint256::GetCompact)
Encode(x) ==
  LET bytes == BN!ToBase(x, 256)                       \* little endian
      size == Len(bytes)
      top3 == IF size = 0 THEN 0
              ELSE IF size = 1 THEN bytes[1] * 65536
              ELSE IF size = 2 THEN bytes[2] * 65536 + bytes[1] * 256
              ELSE bytes[size] * 65536 + bytes[size - 1] * 256 + bytes[size - 2]
  IN IF top3 >= 8388608 THEN [e |-> size + 1, m |-> top3 \div 256]
     ELSE [e |-> size, m |-> top3]

LimitBits(net) == IF net = "regtest" THEN [e |-> 32, m |-> 8388607] ELSE [e |-> 29, m |-> 65535]
\* (zero-arity constant definitions: TLC evaluates each once)
LimitRegtest == Decode(32, 8388607)
LimitOther == Decode(29, 65535)
Limit(net) == IF net = "regtest" THEN LimitRegtest ELSE LimitOther

(***************************************************************************)
(* Timestamp rule.                                                         *)
(***************************************************************************)
\* median of the timestamps of the up to 11 last headers of the chain
MedianTimePast(chain) ==
  LET n == IF Len(chain) < 11 THEN Len(chain) ELSE 11
      ts == SortSeq([i \in 1..n |-> chain[Len(chain) - n + i].t], LAMBDA a, b : a < b)
  IN ts[(n \div 2) + 1]

TimeTooOld(chain, t) == t <= MedianTimePast(chain)
TimeTooNew(t, now) == t > now + 7200

(***************************************************************************)
(* Required target for a header with timestamp t that extends `chain`.     *)
(***************************************************************************)
Clamp(x, lo, hi) == IF x < lo THEN lo ELSE IF x > hi THEN hi ELSE x

\* the retarget: min(limit, base * clamp(span, T/4, 4T) / T), re-encoded in compact form
Retarget(net, baseBits, span) ==
  LET s == Clamp(span, TargetSpan \div 4, TargetSpan * 4)
      base == Decode(baseBits.e, baseBits.m)
      raw == BN!DivMod(BN!MulInt(base, s), TargetSpan).q
      u == BN!MinNat(raw, Limit(net))
  IN Encode(u)

Bits(h) == [e |-> h.e, m |-> h.m]
IsLimit(net, h) == Bits(h) = LimitBits(net)

\* chain[i] holds the header at height base + i - 1 (base = height of the first header the store has)
\* testnet / regtest walk-back: the bits of the last header that is not at the limit or sits at a
\* retarget height, stopping at the first header of the store
RECURSIVE WalkBack(_, _, _, _)
WalkBack(net, base, chain, i) ==
  IF ~IsLimit(net, chain[i]) \/ (base + i - 1) % Interval = 0 \/ i = 1 THEN Bits(chain[i])
  ELSE WalkBack(net, base, chain, i - 1)

RequiredAt(net, base, chain, t) ==
  LET n == Len(chain)
      h == base + n                   \* height of the candidate
      prev == chain[n]
      fi == n - Interval + 1          \* index of the first header of the period (height h - Interval)
      first == IF fi >= 1 THEN chain[fi] ELSE chain[1]
      span == IF prev.t > first.t THEN prev.t - first.t ELSE 0
  IN IF net = "mainnet"
     THEN IF h % Interval # 0 THEN Bits(prev) ELSE Retarget(net, Bits(prev), span)
     ELSE IF h % Interval # 0
          THEN IF t > prev.t + 1200 THEN LimitBits(net) ELSE WalkBack(net, base, chain, n)
          ELSE IF net = "regtest" THEN Bits(prev)
               ELSE Retarget(net, Bits(first), span)

Required(net, chain, t) == RequiredAt(net, 0, chain, t)

(***************************************************************************)
(* Acceptance.  powOK: the header's hash is at most its declared target    *)
(* (an input: hashing is outside the specification).                       *)
(***************************************************************************)
TargetAboveMax(net, e, m) == BN!Lt(Limit(net), Decode(e, m))
TargetMatches(net, base, chain, t, e, m) ==
  LET r == RequiredAt(net, base, chain, t) IN Decode(e, m) = Decode(r.e, r.m)

Accept(net, base, chain, now, c, powOK) ==
  /\ ~TimeTooOld(chain, c.t) /\ ~TimeTooNew(c.t, now)
  /\ ~TargetAboveMax(net, c.e, c.m)
  /\ powOK
  /\ TargetMatches(net, base, chain, c.t, c.e, c.m)

\* error variants that apply to a rejected header with a known parent
Errors(net, base, chain, now, c, powOK) ==
  (IF TimeTooOld(chain, c.t) THEN {"HeaderIsOld"} ELSE {}) \cup
  (IF TimeTooNew(c.t, now) THEN {"HeaderIsTooFarInFuture"} ELSE {}) \cup
  (IF TargetAboveMax(net, c.e, c.m) THEN {"TargetDifficultyAboveMax"} ELSE {}) \cup
  (IF ~powOK THEN {"InvalidPoWForHeaderTarget"} ELSE {}) \cup
  (IF ~TargetMatches(net, base, chain, c.t, c.e, c.m) \/ ~powOK THEN {"InvalidPoWForComputedTarget"} ELSE {})

=============================================================================
