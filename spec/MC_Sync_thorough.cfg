SPECIFICATION LiveSpec
CONSTANTS
  MaxHeaders = 3
  MaxFeeTxs = 3
  SyncedSlack = 2
  DepthBoundOverride = 3
  MaxPages = 3
  MaxFaults = 5
  HbIds = {1, 2, 3}
INVARIANTS
  AtMostOneOutstanding
  FlagIffOutstanding
  FollowUpsNumbered
  PagesBounded
  InitialNamesTree
  NoDuplicates
  Shape
PROPERTIES
  EventuallyApplied
VIEW SView
CHECK_DEADLOCK FALSE
