------------------------------ MODULE MC_System ------------------------------
(***************************************************************************)
(* Composition: the watchdog's tick (watchdog/src/lib.rs tick,             *)
(* api_access.rs synchronise_api_access) around the bitcoin canister's     *)
(* api_access flag (C14's first gate).  One tick is four steps, each an    *)
(* await in the code, so that the canister's own progress, a second        *)
(* overlapping tick (timers are not serialised) and an operator's          *)
(* set_config can be interleaved at every await:                           *)
(*                                                                         *)
(*   Fetch      : explorer heights + canister height are stored            *)
(*   Decide     : target := flag of Decision(storage)  (Watchdog.tla)      *)
(*   ReadActual : actual := the canister's api flag (get_config)           *)
(*   Update     : if target # actual then set_config(api := target)        *)
(*                                                                         *)
(* Safety: the watchdog never writes a flag other than the decision of a   *)
(* round it has stored, and never writes when it has not enough data.      *)
(* Liveness (fair ticks, finitely many operator interventions and failed   *)
(* calls, at least MinExp honest explorers): a canister that stays more than Behind  *)
(* blocks behind is eventually disabled for good; one that stays in the    *)
(* band is eventually enabled for good.                                    *)
(***************************************************************************)
EXTENDS Watchdog, TLC

CONSTANTS NProviders, MinExp, Behind, Ahead, MaxH, MaxOps, MaxFaults, Ticks

Providers == 1..NProviders

VARIABLES H,        \* height of the network
          ch,       \* main chain height of the canister
          api,      \* the canister's api_access flag (1 enabled / 0 disabled)
          stored,   \* watchdog storage: provider -> height or None
          sheight,  \* watchdog storage: canister height or None
          pc,       \* tick id -> "idle" | "decide" | "read" | "update"
          target,   \* tick id -> the target computed by this tick (-1 = none)
          actual,   \* tick id -> the flag read by this tick
          ops,      \* number of operator interventions so far
          faults,   \* number of failed inter-canister calls so far (bounded: eventually calls succeed)
          writes    \* history: the flags the watchdog wrote together with the decision they came from

vars == <<H, ch, api, stored, sheight, pc, target, actual, ops, faults, writes>>

Init ==
  /\ H = 2 /\ ch \in {0, 2} /\ api \in {0, 1}
  /\ stored = [p \in Providers |-> None] /\ sheight = None
  /\ pc = [t \in Ticks |-> "idle"] /\ target = [t \in Ticks |-> -1] /\ actual = [t \in Ticks |-> -1]
  /\ ops = 0 /\ faults = 0 /\ writes = {}

\* environment
Mine == H < MaxH /\ H' = H + 1 /\ UNCHANGED <<ch, api, stored, sheight, pc, target, actual, ops, faults, writes>>
Sync == ch < H /\ ch' = ch + 1 /\ UNCHANGED <<H, api, stored, sheight, pc, target, actual, ops, faults, writes>>
Operator == ops < MaxOps /\ api' = 1 - api /\ ops' = ops + 1
            /\ UNCHANGED <<H, ch, stored, sheight, pc, target, actual, faults, writes>>

\* an explorer answers the true height, lags by one, or fails; at most one provider is wrong per round
Answers == {r \in [Providers -> {H, H - 1, None}] : Cardinality({p \in Providers : r[p] # H}) <= 1}

Fetch(t) ==
  /\ pc[t] = "idle"
  /\ \E r \in Answers :
       /\ stored' = r
       /\ \/ sheight' = ch /\ UNCHANGED faults
          \/ faults < MaxFaults /\ sheight' = None /\ faults' = faults + 1     \* the call for the canister's height failed
  /\ pc' = [pc EXCEPT ![t] = "decide"]
  /\ UNCHANGED <<H, ch, api, target, actual, ops, writes>>

StoredSeq == [p \in Providers |-> stored[p]]
D == Decision(StoredSeq, sheight, MinExp, Behind, Ahead)

Decide(t) ==
  /\ pc[t] = "decide"
  /\ target' = [target EXCEPT ![t] = D.flag]
  /\ pc' = [pc EXCEPT ![t] = IF D.flag = -1 THEN "idle" ELSE "read"]
  /\ UNCHANGED <<H, ch, api, stored, sheight, actual, ops, faults, writes>>

ReadActual(t) ==
  /\ pc[t] = "read"
  /\ \/ actual' = [actual EXCEPT ![t] = api] /\ UNCHANGED faults                         \* get_config answered
     \/ faults < MaxFaults /\ actual' = [actual EXCEPT ![t] = -1] /\ faults' = faults + 1   \* the call failed: actual = None # target
  /\ pc' = [pc EXCEPT ![t] = "update"]
  /\ UNCHANGED <<H, ch, api, stored, sheight, target, ops, writes>>

Update(t) ==
  /\ pc[t] = "update"
  /\ IF target[t] # actual[t]
     THEN \/ /\ api' = target[t]                          \* set_config delivered
             /\ writes' = writes \cup {[flag |-> target[t]]}
             /\ UNCHANGED faults
          \/ faults < MaxFaults /\ faults' = faults + 1 /\ UNCHANGED <<api, writes>>       \* the call failed
     ELSE UNCHANGED <<api, writes, faults>>
  /\ pc' = [pc EXCEPT ![t] = "idle"]
  /\ UNCHANGED <<H, ch, stored, sheight, target, actual, ops>>

Next == Mine \/ Sync \/ Operator \/ \E t \in Ticks : Fetch(t) \/ Decide(t) \/ ReadActual(t) \/ Update(t)

Spec == Init /\ [][Next]_vars

\* ---------------------------------------------------------------- safety
TypeOK ==
  /\ api \in {0, 1} /\ ch <= H
  /\ \A t \in Ticks : target[t] \in {-1, 0, 1} /\ actual[t] \in {-1, 0, 1}

\* a tick past Decide always carries a real decision
NoWriteWithoutData == \A t \in Ticks : pc[t] \in {"read", "update"} => target[t] \in {0, 1}

\* the watchdog writes only flags
WritesAreFlags == \A w \in writes : w.flag \in {0, 1}

\* with a single tick (no overlap): what is written is the decision of the storage as it is now
SingleTickWritesItsDecision ==
  Cardinality(Ticks) = 1 => \A t \in Ticks : pc[t] \in {"read", "update"} => target[t] = D.flag

\* ---------------------------------------------------------------- liveness
\* every step of a tick is eventually taken; failures are bounded (MaxFaults), so calls eventually succeed
Fair == \A t \in Ticks : WF_vars(Fetch(t)) /\ WF_vars(Decide(t)) /\ WF_vars(ReadActual(t)) /\ WF_vars(Update(t))
LiveSpec == Spec /\ Fair

Stuck == ch < H - Behind                         \* more than Behind blocks behind the network
InBand == ch >= H - Behind + 1                   \* within the band even for an explorer lagging by one
Quiet == ops = MaxOps /\ H = MaxH /\ faults = MaxFaults      \* the environment has settled

\* if the canister stays behind (it stopped syncing), the API is eventually disabled for good
BehindIsDisabled == <>[](Quiet /\ Stuck) => <>[](api = 0)
\* if it stays within the band, the API is eventually enabled for good
InBandIsEnabled == <>[](Quiet /\ InBand) => <>[](api = 1)
=============================================================================
