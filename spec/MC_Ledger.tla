----------------------------- MODULE MC_Ledger -----------------------------
(***************************************************************************)
(* Bounded instance with TRANSACTION CONTENT: every history of up to       *)
(* MaxBlocks blocks in which each block carries a coinbase (to address 1,  *)
(* 2, a script without address, or OP_RETURN; value 0 or 5) and at most    *)
(* one further transaction: a fresh spend of any output unspent on that    *)
(* chain (including the block's own coinbase: same-block create-and-spend) *)
(* or a transaction that already exists on another fork (the same          *)
(* transaction mined at a different height).  Blocks are delivered in      *)
(* every order; stable blocks are ingested ONE OPERATION AT A TIME, so     *)
(* every pause position is a state.                                        *)
(*                                                                         *)
(* Checks that the code's mechanisms (Mech.tla) give the reference answers *)
(* in every state: C01 / C04 (UtxosAgree for every c), C05 (BalanceAgrees),*)
(* C08 (the same while paused), C20 (CacheExact).                          *)
(***************************************************************************)
EXTENDS Mech

CONSTANTS MaxBlocks, Thr

lvars == <<vars, mvars>>

GenesisUni == [par |-> <<0>>, diff |-> <<1>>, time |-> <<0>>, btx |-> <<<<1>>>>, tin |-> <<<<>>>>,
               tout |-> <<<<[a |-> 0, v |-> 0]>>>>, vsz |-> <<100>>, h |-> <<0>>]

Cfg0 == [net |-> "mainnet", thr |-> Thr, api |-> TRUE, syncing |-> TRUE, gate |-> FALSE, lazy |-> TRUE, burn |-> FALSE,
         fees |-> [ub |-> 0, ur |-> 0, um |-> 0, bal |-> 0, balm |-> 0, pct |-> 0, pctm |-> 0,
                   hb |-> 0, hr |-> 0, hm |-> 0, sb |-> 0, sp |-> 0]]

LInit ==
  /\ uni = GenesisUni
  /\ LET m == InitState(Cfg0)
     IN /\ cfg = m.cfg /\ stable = m.stable /\ tree = m.T /\ ing = m.ing /\ next = m.next
        /\ sync = m.sync /\ fee = m.fee /\ cnt = m.cnt /\ now = 1000000 /\ known = m.known
        /\ flight = m.flight /\ walks = m.walks
  /\ sU = {} /\ sBal = [a \in Addrs |-> 0] /\ dAdd = {} /\ dRem = {}
  \* the anchor (genesis) is processed like any unstable block
  /\ opc = (<<1, 1>> :> [a |-> 0, v |-> 0, h |-> 0, cnt |-> 1])
  /\ addB = (1 :> EmptyPerAddr) /\ remB = (1 :> EmptyPerAddr)

OutChoices == {[a |-> a, v |-> v] : a \in {1, 2, NoAddr}, v \in {0, 5}} \cup {[a |-> OpRet, v |-> 0]}

\* append a block to the universe
AddBlock(p, txs, newTin, newTout) ==
  uni' = [par  |-> Append(uni.par, p),
          diff |-> Append(uni.diff, 1),
          time |-> Append(uni.time, Time(p) + 600),
          btx  |-> Append(uni.btx, txs),
          tin  |-> uni.tin \o newTin,
          tout |-> uni.tout \o newTout,
          vsz  |-> uni.vsz \o [i \in 1..Len(newTin) |-> 100],
          h    |-> Append(uni.h, uni.h[p] + 1)]

NextTx == Len(uni.tin) + 1

\* the environment mines a block: coinbase only
MineCoinbase(p, cb) ==
  /\ NumBlocks < MaxBlocks
  /\ AddBlock(p, <<NextTx>>, <<<<>>>>, <<<<cb>>>>)

\* coinbase and a fresh transaction spending one output unspent on the parent's chain, or the coinbase
MineSpend(p, cb, o, out) ==
  /\ NumBlocks < MaxBlocks
  /\ o \in {OutP(e) : e \in LedgerAt(p)} \cup (IF cb.a # OpRet THEN {<<NextTx, 1>>} ELSE {})
  /\ o # <<1, 1>>
  /\ AddBlock(p, <<NextTx, NextTx + 1>>, <<<<>>, <<o>>>>, <<<<cb>>, <<out>>>>)

\* coinbase and a transaction that already exists (mined elsewhere) and is valid on this chain too
MineReuse(p, cb, t) ==
  /\ NumBlocks < MaxBlocks
  /\ t \in AllTxs /\ ~IsCoinbase(t)
  /\ SpentBy(t) \subseteq {OutP(e) : e \in LedgerAt(p)}
  /\ \A b \in AllBlocks : IsAncestorOrSelf(b, p) => \A i \in 1..Len(Txs(b)) : Txs(b)[i] # t
  /\ AddBlock(p, <<NextTx, t>>, <<<<>>>>, <<<<cb>>>>)

Mine ==
  /\ \E p \in AllBlocks, cb \in OutChoices :
       \/ MineCoinbase(p, cb)
       \/ \E o \in (AllTxs \cup {NextTx}) \X {1}, out \in {[a |-> 1, v |-> 5], [a |-> 2, v |-> 5], [a |-> 2, v |-> 0]} :
            MineSpend(p, cb, o, out)
       \/ \E t \in AllTxs : MineReuse(p, cb, t)
  /\ UNCHANGED <<cfg, stable, tree, ing, next, sync, fee, cnt, now, known, flight, walks, mvars>>

\* a block is delivered (any order; orphans and duplicates are not admitted)
Deliver(b) ==
  /\ Par(b) \in InTree(tree) /\ b \notin InTree(tree) /\ ing.b = 0
  /\ tree' = [tree EXCEPT !.arr = Append(@, b)]
  /\ MechPush(b, Height(b))
  /\ UNCHANGED <<uni, cfg, stable, ing, next, sync, fee, cnt, now, known, flight, walks, sU, sBal, dAdd, dRem>>

\* one operation of stable ingestion (starting the anchor's ingestion if a child is stable)
IngestOne ==
  LET child == StableChild(St)
  IN /\ (ing.b # 0 \/ child # 0)
     /\ LET b == IF ing.b # 0 THEN ing.b ELSE tree.anchor
            k == IF ing.b # 0 THEN ing.k ELSE 0
        IN IF k < NumOps(b)
           THEN /\ MechOp(b, k)
                /\ ing' = [b |-> b, k |-> k + 1]
                /\ UNCHANGED <<uni, cfg, stable, tree, next, sync, fee, cnt, now, known, flight, walks, opc, addB, remB>>
           ELSE \* all operations done: pop the anchor
                /\ child # 0
                /\ LET T2 == Advance(tree, child)
                   IN /\ tree' = T2 /\ stable' = Append(stable, b) /\ ing' = NoIng
                      /\ MechDrop(InTree(tree) \ InTree(T2))
                /\ dAdd' = {} /\ dRem' = {}
                /\ UNCHANGED <<uni, cfg, next, sync, fee, cnt, now, known, flight, walks, sU, sBal>>

LNext == Mine \/ (\E b \in AllBlocks : Deliver(b)) \/ IngestOne

LSpec == LInit /\ [][LNext]_lvars

Shape == TreeWellFormed
=============================================================================
