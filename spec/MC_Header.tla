------------------------------ MODULE MC_Header ------------------------------
(***************************************************************************)
(* Bounded instance of the header rules (C11) with the retarget interval   *)
(* scaled down (Interval = 4 blocks of 600 s): every chain that honest     *)
(* miners can build from a set of starting difficulties with timestamps    *)
(* chosen from {median-time-past + 1, parent + 1, + 600, + 1201, + 3000},   *)
(* on the three networks.  Every header of a chain carries the bits that   *)
(* `RequiredAt` demands, so the invariants are statements about the rule   *)
(* itself (the same operators TraceHeaders compares the code with):        *)
(*                                                                         *)
(*  - required targets never exceed the network limit and are canonical    *)
(*    compact encodings (the acceptance test compares decoded targets);    *)
(*  - mainnet: bits change only at retarget heights, by at most a factor   *)
(*    of four either way;                                                  *)
(*  - regtest never retargets;                                             *)
(*  - testnet: the walk-back mechanism equals its declarative reading      *)
(*    (the bits of the latest header that sits at a retarget height or is  *)
(*    not a minimum-difficulty header);                                    *)
(*  - the median-time-past never decreases along a chain, and the          *)
(*    timestamp rule admits at least one timestamp (no chain is stuck).    *)
(***************************************************************************)
EXTENDS HeaderRules

CONSTANTS MaxLen, Nets

VARIABLES net, chain

Starts(n) ==
  IF n = "regtest" THEN {LimitBits(n)}
  ELSE {LimitBits(n), [e |-> 28, m |-> 65535], [e |-> 27, m |-> 1193046]}

Init == /\ net \in Nets
        /\ \E b \in Starts(net) : chain = <<[t |-> 0, e |-> b.e, m |-> b.m]>>

Times ==
  LET p == chain[Len(chain)].t
  IN {MedianTimePast(chain) + 1, p + 1, p + 600, p + 1201, p + 3000}

Next ==
  /\ Len(chain) < MaxLen
  /\ \E t \in Times :
       /\ ~TimeTooOld(chain, t)
       /\ LET r == Required(net, chain, t)
          IN chain' = Append(chain, [t |-> t, e |-> r.e, m |-> r.m])
  /\ UNCHANGED net

Spec == Init /\ [][Next]_<<net, chain>>

Prefix(k) == SubSeq(chain, 1, k)
Height(i) == i - 1

\* Every prefix of a chain is itself a reachable state, so each invariant only looks at the last header.
N == Len(chain)

BelowLimit == ~BN!Lt(Limit(net), Decode(chain[N].e, chain[N].m))

Canonical == Encode(Decode(chain[N].e, chain[N].m)) = Bits(chain[N])

MainnetSteps ==
  (net = "mainnet" /\ N >= 2) =>
      LET old == Decode(chain[N - 1].e, chain[N - 1].m)
          new == Decode(chain[N].e, chain[N].m)
      IN IF Height(N) % Interval # 0 THEN Bits(chain[N]) = Bits(chain[N - 1])
         ELSE /\ BN!Leq(new, BN!MulInt(old, 4))              \* at most four times easier
              /\ BN!Leq(old, BN!MulInt(new, 5))              \* at most four times harder (5: compact rounding)

RegtestFixed == net = "regtest" => Bits(chain[N]) = LimitBits("regtest")

\* declarative reading of the walk-back for a candidate on top of the first k headers
LastReal(k) ==
  LET S == {j \in 1..k : j = 1 \/ Height(j) % Interval = 0 \/ ~IsLimit(net, chain[j])}
  IN CHOOSE j \in S : \A x \in S : x <= j
WalkBackIsDeclarative ==
  net # "mainnet" => WalkBack(net, 0, chain, N) = Bits(chain[LastReal(N)])

\* testnet: a header that is not a minimum-difficulty header and not at a retarget height carries the
\* real difficulty of its period
TestnetRealDifficulty ==
  (net = "testnet" /\ N >= 2) =>
      ((Height(N) % Interval # 0 /\ chain[N].t <= chain[N - 1].t + 1200)
        => Bits(chain[N]) = Bits(chain[LastReal(N - 1)]))

MedianMonotone == N >= 2 => MedianTimePast(Prefix(N - 1)) <= MedianTimePast(chain)

NeverStuck == \E t \in Times : ~TimeTooOld(chain, t)
=============================================================================
