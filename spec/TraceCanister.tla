--------------------------- MODULE TraceCanister ---------------------------
(***************************************************************************)
(* Trace validation: checks that an execution recorded from the real       *)
(* canister (harness `run`) is a behaviour of Canister.tla.                *)
(*                                                                         *)
(* The file named by the environment variable TRACE is ndjson.  It is a    *)
(* concatenation of segments; each segment starts with a "universe"        *)
(* record and continues with one record per message: the environment's     *)
(* choices (reply of the block source, budget, time) and the projected     *)
(* post-state or the answer.  Nothing is left to TLC to guess, so the      *)
(* search is linear: one state per record.                                 *)
(*                                                                         *)
(* A record that the specification cannot explain does not stop the run:   *)
(* it is reported with PrintT(<<"MISMATCH", line, tag, expected, got>>)    *)
(* and, if it was a state-changing message, the rest of its segment is     *)
(* skipped (`bad`).  Deviations that are listed as known findings are      *)
(* reported with "KNOWN" instead and the trace continues.                  *)
(***************************************************************************)
EXTENDS Canister, Json, IOUtils

Rec == ndJsonDeserialize(IOEnv.TRACE)

VARIABLES l,      \* index of the next record
          bad,    \* the current segment has diverged (or ended in a trap): skip to the next one
          nad,    \* number of addresses of the current segment
          lastq,  \* the last get_utxos answer (address, filter, sum / error), for the C05 relation
          upg     \* TRUE from an upgrade until the next state-changing message

tvars == <<vars, l, bad, nad, lastq, upg>>

R == Rec[l]
Has(r, f) == f \in DOMAIN r

(***************************************************************************)
(* Reporting.                                                              *)
(***************************************************************************)
\* a list of <<tag, expected, got>> or <<tag, expected, got, alts>>; alts is a set of
\* <<known-finding name, value>>: a listed deviation of the code from the property.
\* Prints every element whose two sides differ; returns TRUE iff all agree (a known
\* deviation counts as agreement, so that the rest of the trace is still checked).
Known(c) == Len(c) = 4 /\ \E a \in c[4] : a[2] = c[3]
AllAgree(checks) ==
  LET diff == {i \in 1..Len(checks) : checks[i][2] # checks[i][3]}
      kfs  == {i \in diff : Known(checks[i])}
      badIdx == diff \ kfs
  IN /\ \A i \in kfs : PrintT("@@" \o ToJson([kind |-> "KNOWN", l |-> l, ev |-> R.ev, tag |-> checks[i][1],
                            kf |-> {a[1] : a \in {x \in checks[i][4] : x[2] = checks[i][3]}},
                            exp |-> checks[i][2], got |-> checks[i][3], paused |-> ing.b # 0, upg |-> upg]))
     /\ \A i \in badIdx : PrintT("@@" \o ToJson([kind |-> "MISMATCH", l |-> l, ev |-> R.ev, tag |-> checks[i][1],
                            exp |-> checks[i][2], got |-> checks[i][3], paused |-> ing.b # 0, upg |-> upg]))
     /\ badIdx = {}

Note(kind, tag, detail) == PrintT("@@" \o ToJson([kind |-> kind, l |-> l, ev |-> R.ev, tag |-> tag, detail |-> detail,
                                                    paused |-> ing.b # 0, upg |-> upg]))

(***************************************************************************)
(* Projection of the specification's state, in the shape the harness logs. *)
(***************************************************************************)
SortedSeq(S) == SetToSortSeq(S, LAMBDA x, y : x < y)

IngPos(m) ==
  IF m.ing.b = 0 THEN <<>>
  ELSE LET b   == m.ing.b
           ops == BlockOps(b)
       IN IF m.ing.k >= Len(ops) THEN <<b, -1, -1, -1>>
          ELSE LET op == ops[m.ing.k + 1]
                   ti == (CHOOSE i \in 1..Len(Txs(b)) : Txs(b)[i] = op.t) - 1
                   nin == IF IsCoinbase(op.t) THEN 1 ELSE Len(Ins(op.t))
               IN IF op.kind = "in" THEN <<b, ti, op.i - 1, 0>>
                  ELSE <<b, ti, nin, op.i - 1>>

RespProj(m) ==
  IF m.sync.resp.k = "partial"
  THEN [k |-> "partial", item |-> m.sync.resp.item, n |-> m.sync.resp.n, got |-> m.sync.resp.got,
        pfx |-> TRUE, next |-> m.sync.resp.next]
  ELSE m.sync.resp

PairLess(p, q) == p[1] < q[1] \/ (p[1] = q[1] /\ p[2] < q[2])
NextProj(m) == SetToSortSeq(m.next, PairLess)

TreeProj(m) == LET pre == PreorderFast(m.T) IN [i \in 1..Len(pre) |-> <<pre[i], Diff(pre[i])>>]

\* C20: what the tree requires
TripleLess(p, q) == p[1] < q[1] \/ (p[1] = q[1] /\ p[2] < q[2])
OutsProj(m) == LET O == CachedOutpoints(m)
               IN SetToSortSeq({<<o[1], o[2], RefCount(m, o)>> : o \in O}, TripleLess)

AddedOf(b, a) ==      \* outpoints created in b that pay address a, in block order
  FoldLeft(LAMBDA acc, t : acc \o SelectSeq([j \in 1..Len(Outs(t)) |-> <<t, j>>],
                                             LAMBDA o : Outs(o[1])[o[2]].a = a),
           <<>>, Txs(b))
RemovedOf(b, a) ==    \* outpoints spent in b whose output pays address a, in block order
  SelectSeq(SpendsSeq(b), LAMBDA o : Outs(o[1])[o[2]].a = a)

\* the order inside a block's list is not observable (answers are sorted): both sides are compared sorted;
\* an outpoint listed twice by the code still shows (the specification's list has no repetitions)
SortPairs(s) == SortSeq(s, PairLess)
DeltaProj(m, F(_, _)) ==
  LET bs == SortedSeq(InTree(m.T))
      perBlock(b) == FoldLeft(LAMBDA acc, a : IF Len(F(b, a)) = 0 THEN acc ELSE Append(acc, <<b, a, SortPairs(F(b, a))>>),
                              <<>>, [i \in 1..nad |-> i])
  IN FoldLeft(LAMBDA acc, b : acc \o perBlock(b), <<>>, bs)

TipsProj(m) ==
  LET lv == Leaves(m.T)
      ds == {RelDepth(m.T, x) : x \in lv}
      cntOf(d) == Cardinality({x \in lv : RelDepth(m.T, x) = d})
  IN FoldLeft(LAMBDA acc, d : acc \o [i \in 1..cntOf(d) |-> d], <<>>, SortedSeq(ds))

NextIdxProj(m) ==
  LET hs == {p[2] : p \in m.next}
  IN [i \in 1..Cardinality(hs) |->
        LET h == SortedSeq(hs)[i] IN <<h, SortedSeq({p[1] : p \in {q \in m.next : q[2] = h}})>>]

PostChecks(m, post) ==
  <<  <<"post.stableH", Len(m.stable), post.stableH>>,
      <<"post.tree", TreeProj(m), post.tree>>,
      <<"post.best", Best(m), post.best>>,
      <<"post.hdr", HdrStore(m), post.hdr>>,
      <<"post.hdrOk", TRUE, post.hdrOk>>,
      <<"post.ing", IngPos(m), post.ing>>,
      <<"post.fetching", m.sync.fetching, post.fetching>>,
      <<"post.resp", RespProj(m), post.resp>>,
      <<"post.next", NextProj(m), post.next>>,
      <<"post.fee", m.fee, post.fee>>,
      <<"post.cfg", m.cfg, post.cfg>>,
      <<"post.cnt", m.cnt, post.cnt>> >>
  \o (IF Has(post, "book")
      THEN LET bk == post.book
               tr == SortedSeq(InTree(m.T))
           IN << <<"book.cache", tr, bk.cache>>,
                 <<"book.addedB", tr, bk.addedB>>,
                 <<"book.removedB", tr, bk.removedB>>,
                 <<"book.outs", OutsProj(m), bk.outs>>,
                 <<"book.added", DeltaProj(m, AddedOf), bk.added>>,
                 <<"book.removed", DeltaProj(m, RemovedOf), bk.removed>>,
                 <<"book.tips", TipsProj(m), bk.tips>>,
                 <<"book.nextIdx", NextIdxProj(m), bk.nextIdx>> >>
      ELSE <<>>)

(***************************************************************************)
(* Segment start.                                                          *)
(***************************************************************************)
EmptyUni == [par |-> <<0>>, diff |-> <<1>>, time |-> <<0>>, btx |-> <<<<1>>>>, tin |-> <<<<>>>>,
             tout |-> <<<<[a |-> 0, v |-> 0]>>>>, vsz |-> <<1>>, h |-> <<0>>]
DummyCfg == [net |-> "regtest", thr |-> 1, api |-> TRUE, syncing |-> TRUE, gate |-> TRUE, lazy |-> FALSE, burn |-> FALSE,
             fees |-> [ub |-> 0, ur |-> 0, um |-> 0, bal |-> 0, balm |-> 0, pct |-> 0, pctm |-> 0,
                       hb |-> 0, hr |-> 0, hm |-> 0, sb |-> 0, sp |-> 0]]

NoQ == [addr |-> -1, mc |-> -1, res |-> <<"none", 0>>]

TraceInit ==
  /\ l = 1 /\ bad = TRUE /\ nad = 0 /\ lastq = NoQ /\ upg = FALSE
  /\ uni = EmptyUni
  /\ cfg = DummyCfg /\ stable = <<>> /\ tree = [anchor |-> 1, arr |-> <<1>>] /\ ing = NoIng
  /\ next = {} /\ sync = [fetching |-> FALSE, resp |-> NoResp] /\ fee = NoFee /\ cnt = ZeroCnt
  /\ now = 0 /\ known = {1} /\ flight = {} /\ walks = {}

Consume == l <= Len(Rec) /\ l' = l + 1

\* (the domain condition is evaluated on the logged universe through an instance of Universe with `uni`
\* substituted, not as UniverseValid': TLC evaluates primed state functions of this size without caching,
\* minutes instead of milliseconds for a universe of a few hundred transactions)
UV(u) == INSTANCE Universe WITH uni <- u
TraceUniverse ==
  /\ Consume /\ R.ev = "universe"
  /\ uni' = R.uni
  /\ nad' = R.naddr
  /\ Install(InitState(R.cfg))
  /\ lastq' = NoQ /\ upg' = FALSE
  /\ bad' = ~(UV(R.uni)!UniverseValid)       \* outside the properties' domain: nothing is claimed
  /\ (UV(R.uni)!UniverseValid \/ Note("TOOLERROR", "universe", "a block of the universe is not transaction-valid"))

Skip ==      \* records of a diverged segment, and records that carry no information
  /\ Consume /\ R.ev # "universe" /\ (bad \/ R.ev = "skip")
  /\ UNCHANGED <<vars, bad, nad, lastq, upg>>

Live(e) == Consume /\ ~bad /\ R.ev = e

(***************************************************************************)
(* State-changing messages.                                                *)
(***************************************************************************)
\* C03 on the step from the current state to m2: the stable chain only grows, by blocks of the chain
\* that was being served, and the new anchor lies on that chain.  The one listed exception is the
\* depth escape choosing the last of several children tied on difficulty depth.
FinalityChecks(m2) ==
  LET served == stable \o BestChainOf(tree)
      grown == Append(m2.stable, m2.T.anchor)
      onServed == IsPrefix(grown, served)
      first == IF Len(m2.stable) > Len(stable) /\ Len(BestChainOf(tree)) >= 2 THEN BestChainOf(tree)[2] ELSE 0
      tie == /\ cfg.net # "mainnet" /\ Len(m2.stable) > Len(stable)
             /\ \E c \in KidSet(tree, tree.anchor) :
                   c # first /\ first # 0 /\ DDMap(tree)[c] = DDMap(tree)[first] /\ IsPrefix(stable \o <<tree.anchor, c>>, grown)
  IN << <<"finality.prefix", TRUE, IsPrefix(stable, m2.stable)>>,
        <<"finality.onServedChain", TRUE, onServed, IF tie THEN {<<"KF_TieDepthEscape", FALSE>>} ELSE {}>> >>

\* common tail: compare the logged post-state with the specification's successor m2
Land(m2, extra) ==
  /\ lastq' = NoQ /\ upg' = (R.ev = "upgrade")
  /\ IF R.out = "trap"
     THEN /\ UNCHANGED <<vars, nad>> /\ bad' = TRUE
          /\ Note("MISMATCH", "trap", <<"the message trapped but the specification expects it to complete", R.msg>>)
     ELSE /\ Install(m2) /\ UNCHANGED <<uni, nad>>
          /\ bad' = ~AllAgree(extra \o FinalityChecks(m2) \o PostChecks(m2, R.post))

\* The specification itself expects the message to trap: the only such case is the listed
\* finding KF_ThresholdRaiseWhilePaused (the anchor's ingestion completes but, because the
\* stability threshold was raised while it was paused, no child of the anchor is stable any more
\* and `pop` returns None).
ExpectTrap(tag) ==
  /\ UNCHANGED <<lastq, upg>>
  /\ IF R.out = "trap"
     THEN /\ UNCHANGED <<vars, nad>> /\ bad' = TRUE
          /\ PrintT("@@" \o ToJson([kind |-> "KNOWN", l |-> l, ev |-> R.ev, tag |-> tag,
                                     kf |-> {"KF_ThresholdRaiseWhilePaused"}, exp |-> "trap", got |-> R.msg,
                                     paused |-> ing.b # 0, upg |-> upg]))
     ELSE /\ UNCHANGED <<vars, nad>> /\ bad' = TRUE
          /\ Note("MISMATCH", "trap", "the specification expects this message to trap")

Budget(b) == IF b = 0 THEN 1000000000 ELSE b

ReplyOf(r) == r     \* logged replies already have the specification's shape

TraceTick == Live("tick") /\ now' = R.now /\ UNCHANGED <<uni, cfg, stable, tree, ing, next, sync, fee, cnt, known, flight, walks, bad, nad, lastq, upg>>

\* canonical form of a request for comparison: the processed hashes as a set plus their number
\* (C13 fixes which blocks are named, not their order)
ReqCanon(r) ==
  IF r.k = "initial"
  THEN [k |-> "initial", anchor |-> r.anchor, processed |-> {r.processed[i] : i \in 1..Len(r.processed)}, n |-> Len(r.processed)]
  ELSE r

\* the ingest phase of the logged message: the specification follows the logged number of completed
\* blocks and pause position (if the state says there is ingestion work) and checks admissibility
IngestWork(m) == m.ing.b # 0 \/ StableChild(m) # 0
ObservedIngest(m) ==
  IF ~IngestWork(m) THEN [m |-> m, status |-> "idle", lo |-> 0, hi |-> 0, flags |-> {}]
  ELSE LET n == IF R.post.stableH > Len(m.stable) THEN R.post.stableH - Len(m.stable) ELSE 0
       IN IngestObserved(m, n, R.post.ing)
IngestChecks(m, r, B) ==
  << <<"ingest.admissible", {}, r.flags>>,
     <<"ingest.budget", TRUE, BudgetOK(r, B)>>,
     <<"ingest.progress", TRUE, ProgressOK(m, r, B)>> >>

\* the message trapped: the only trap the specification knows is the listed finding
\* KF_ThresholdRaiseWhilePaused (the paused block completes but no child of the anchor is stable)
TrapExpected(m, B) ==
  /\ m.ing.b # 0 /\ StableChild(m) = 0
  /\ OpCost(m.ing.b, m.ing.k, NumOps(m.ing.b)).lo <= B

TraceHb ==
  /\ Live("hb")
  /\ IF R.out = "trap"
     THEN IF TrapExpected(St, Budget(R.budget)) THEN ExpectTrap("hb.ingest")
          ELSE Land(St, <<>>)
     ELSE \E r \in {ObservedIngest(Burn(St))} :
          \E f \in {HbSecond(HbFirstWith(Burn(St), r), R.reply)} :
            LET reqJ == IF R.req.k = "initial" THEN [k |-> "initial", anchor |-> R.req.anchor, processed |-> R.req.processed] ELSE R.req
                netOK == <<"hb.request.net", IF R.req.k = "initial" THEN cfg.net ELSE "-", IF R.req.k = "initial" THEN R.req.net ELSE "-">>
            IN IF f.st = "called" /\ R.req.k # "none" /\ ~Conformant(f.req, R.reply)
               THEN /\ UNCHANGED <<vars, nad, lastq, upg>> /\ bad' = TRUE
                    /\ Note("TOOLERROR", "hb.reply", "the harness delivered a reply that does not fit the request")
               ELSE Land(f.m, <<<<"hb.request", ReqCanon(f.req), ReqCanon(reqJ)>>, netOK>> \o IngestChecks(St, r, Budget(R.budget)))

TraceHbSend ==
  /\ Live("hb_send")
  /\ IF R.out = "trap"
     THEN IF TrapExpected(St, Budget(R.budget)) THEN ExpectTrap("hb.ingest")
          ELSE Land(St, <<>>)
     ELSE \E r \in {ObservedIngest(Burn(St))} :
          \E f \in {HbFirstWith(Burn(St), r)} :
            LET reqJ == IF R.req.k = "initial" THEN [k |-> "initial", anchor |-> R.req.anchor, processed |-> R.req.processed] ELSE R.req
                m2 == IF f.st = "await" THEN [f.m EXCEPT !.flight = @ \cup {R.id}] ELSE f.m
                stJ == IF f.st = "await" THEN "await" ELSE "done"
            IN Land(m2, << <<"hb.request", ReqCanon(f.req), ReqCanon(reqJ)>>, <<"hb.outcome", stJ, R.out>> >> \o IngestChecks(St, r, Budget(R.budget)))

TraceHbReply ==
  /\ Live("hb_reply")
  /\ IF R.id \notin flight
     THEN /\ UNCHANGED <<vars, nad, lastq, upg>> /\ bad' = TRUE
          /\ Note("MISMATCH", "hb_reply.flight", "reply delivered to a heartbeat that the specification does not hold suspended")
     ELSE LET m1 == ApplyReply(St, R.reply)
              m2 == [m1 EXCEPT !.flight = @ \ {R.id}]
          IN Land(m2, <<>>)

TraceSetConfig == Live("set_config") /\ Land(SetConfig(St, R.d), <<>>)

TraceUpgrade ==
  /\ Live("upgrade")
  /\ LET m2 == Upgrade(St, R.d)
         \* C09: every query answer and the configuration are unchanged by the upgrade itself
     IN Land(m2, <<>>)

\* direct mode (any network): unstable_blocks::push without validation
TracePush ==
  /\ Live("push")
  /\ LET ok == Par(R.b) \in InTree(tree) /\ R.b \notin InTree(tree)
         m2 == IF ok THEN PushBlock(St, R.b) ELSE St
     IN Land(m2, << <<"push.result", IF ok THEN "ok" ELSE "err", R.out>> >>)

RECURSIVE PushAll(_, _)
PushAll(m, bs) ==
  IF Len(bs) = 0 THEN m
  ELSE IF Par(bs[1]) \in InTree(m.T) /\ bs[1] \notin InTree(m.T) THEN PushAll(PushBlock(m, bs[1]), Tail(bs))
  ELSE PushAll(m, Tail(bs))

TraceBulkPush ==
  /\ Live("bulk_push")
  /\ Land(PushAll(St, R.bs), <<>>)

TraceIngest ==
  /\ Live("ingest")
  /\ IF R.out = "trap"
     THEN IF TrapExpected(St, Budget(R.budget)) THEN ExpectTrap("ingest")
          ELSE Land(St, <<>>)
     ELSE \E r \in {ObservedIngest(St)} : Land(r.m, IngestChecks(St, r, Budget(R.budget)))

(***************************************************************************)
(* Queries.                                                                *)
(***************************************************************************)
GateReasons(m, ep, net) ==
  (IF ~m.cfg.api THEN {"api_disabled"} ELSE {}) \cup
  (IF net # m.cfg.net THEN {"wrong_network"} ELSE {}) \cup
  (IF ep # "send_transaction" /\ m.cfg.gate /\ ~Synced(m) THEN {"not_synced"} ELSE {})

NetLower(n) == IF n = "Mainnet" THEN "mainnet" ELSE IF n = "Testnet" THEN "testnet"
               ELSE IF n = "Regtest" THEN "regtest" ELSE n

\* the gate and cycles part of an answer: returns a check list.
\* `inner` is used when the call is let through; `success` tells whether the request-level
\* processing succeeded (decides the variable part of the fee).
ZeroFees == [ub |-> 0, ur |-> 0, um |-> 0, bal |-> 0, balm |-> 0, pct |-> 0, pctm |-> 0,
             hb |-> 0, hr |-> 0, hm |-> 0, sb |-> 0, sp |-> 0]
IsUpdate == ~Has(R, "mode") \/ R.mode = "update"
LimitedCall == Has(R, "limit") /\ R.limit # 0     \* the page-size hook never charges
AvailOf == IF Has(R, "avail") THEN R.avail ELSE -1
InstrOf == IF Has(R, "instr") THEN R.instr ELSE 0

Gated(m, ep, inner) ==
  LET reasons == GateReasons(m, ep, NetLower(R.net))
      paying == IsUpdate /\ ~LimitedCall
  IN
  IF reasons # {}
  THEN << <<"gate.refuse." \o ep, "trap", R.ans.k>>,
          <<"gate.reason." \o ep, TRUE, R.ans.k # "trap" \/ R.ans.why \in reasons>>,
          <<"cycles.refused." \o ep, 0, R.cyc>> >>
  ELSE IF paying /\ ~Enough(m.cfg.fees, ep, 0, AvailOf)
  THEN << <<"cycles.insufficient." \o ep, "cycles", IF R.ans.k = "trap" THEN R.ans.why ELSE R.ans.k>>,
          <<"cycles.refused." \o ep, 0, R.cyc>> >>
  ELSE << <<"gate.answer." \o ep, TRUE, R.ans.k # "trap">> >>
       \o (IF R.ans.k = "trap" THEN <<>>
           ELSE inner \o << <<"cycles.charged." \o ep,
                              IF paying THEN Charged(m.cfg.fees, ep, R.ans.k = "ok", InstrOf, 0) ELSE 0,
                              R.cyc>> >>)

AddrErrs == IF R.ac = "malformed" THEN {"MalformedAddress"}
            ELSE IF R.ac = "wrongnet" THEN {"AddressForWrongNetwork"} ELSE {}
McOf == IF R.mc < 0 THEN 0 ELSE R.mc
McTag == IF R.mc < 0 THEN "nofilter" ELSE IF R.mc = 0 THEN "mc0" ELSE "mc"

NonIncreasingHeights(us) == \A i \in 1..(Len(us) - 1) : us[i][4] >= us[i + 1][4]

UtxosChecks(m) ==
  LET errs == AddrErrs \cup (IF McOf > Len(Best(m)) THEN {"MinConfirmationsTooLarge"} ELSE {}) IN
  IF errs # {}
  THEN << <<"utxos.error", TRUE, R.ans.k = "err" /\ R.ans.err \in errs>> >>
  ELSE IF R.ans.k # "ok" THEN << <<"utxos.answer", "ok", R.ans.k>> >>
  ELSE LET v == UtxosView(m, R.addr, McOf)
           got == {R.ans.utxos[i] : i \in 1..Len(R.ans.utxos)}
           lim == IF R.limit = 0 THEN 1000 ELSE R.limit
       IN << <<"utxos.tip." \o McTag, v.tip, R.ans.tip>>,
             <<"utxos.tipHeight." \o McTag, v.tipHeight, R.ans.tipHeight>>,
             <<"utxos.entries." \o McTag, v.entries, got>>,
             <<"utxos.once", Cardinality(got), Len(R.ans.utxos)>>,
             <<"utxos.order", TRUE, NonIncreasingHeights(R.ans.utxos)>>,
             <<"utxos.pageTip", TRUE, R.ans.sameTip>>,
             <<"utxos.pageSize", TRUE, R.ans.maxPage <= lim>> >>

BalanceChecks(m) ==
  LET errs == AddrErrs \cup (IF McOf > Len(Best(m)) THEN {"MinConfirmationsTooLarge"} ELSE {}) IN
  IF errs # {}
  THEN << <<"balance.error", TRUE, R.ans.k = "err" /\ R.ans.err \in errs>> >>
  ELSE IF R.ans.k # "ok" THEN << <<"balance.answer", "ok", R.ans.k>> >>
  ELSE << <<"balance.value." \o McTag, BalanceView(m, R.addr, McOf).ok, R.ans.v>> >>

\* C05 as a direct relation between two answers of the code (same address, same filter, same state)
RelationChecks ==
  IF R.ep = "balance" /\ R.ac = "ok" /\ lastq.addr = R.addr /\ lastq.mc = McOf /\ R.ans.k # "trap"
  \* (tagged pairs: a sum is never compared with an error name, which TLC would refuse to evaluate)
  THEN << <<"relation.balance_vs_utxos." \o McTag, lastq.res, IF R.ans.k = "ok" THEN <<"ok", R.ans.v>> ELSE <<"err", R.ans.err>>>> >>
  ELSE <<>>

HeadersChecks(m) ==
  LET v == HeadersView(m, R.s, R.e) IN
  IF Has(v, "err")
  THEN << <<"headers.error", [k |-> "err", err |-> v.err], R.ans>> >>
  ELSE IF R.ans.k # "ok" THEN << <<"headers.answer", "ok", R.ans.k>> >>
  ELSE << <<"headers.list", v.headers, R.ans.headers>>,
          <<"headers.tipHeight", v.tipHeight, R.ans.tipHeight>>,
          <<"headers.all80", TRUE, R.ans.all80>>,
          <<"headers.linked", TRUE, R.ans.linked>> >>

\* get_blockchain_info.utxos_length as the code computes it: the raw stable map (already partly
\* updated while the anchor's ingestion is paused) plus the cached deltas of the best chain
\* (lost on upgrade).  It differs from UtxosLength in exactly two listed situations.
PartialDelta(m) ==
  IF m.ing.b = 0 THEN 0
  ELSE LET ops == BlockOps(m.ing.b)
       IN SumSeq([i \in 1..m.ing.k |->
                    IF ops[i].kind = "in" THEN -1
                    ELSE IF Outs(ops[i].t)[ops[i].i].a = OpRet THEN 0 ELSE 1])
UtxosLengthCode(m) ==
  LET bc == Best(m)
      v == Cardinality(LedgerAt(StableTop(m))) + PartialDelta(m)
           + SumSeq([i \in 1..Len(bc) |-> IF bc[i] \in m.known THEN UtxoDelta(bc[i]) ELSE 0])
  IN IF v < 0 THEN 0 ELSE v
UtxosLengthAlts(m) ==
  LET names == (IF PartialDelta(m) # 0 THEN {"KF_PausedUtxosLength"} ELSE {})
               \cup (LET bc == Best(m) IN
                     IF \E i \in 1..Len(bc) : bc[i] \notin m.known /\ UtxoDelta(bc[i]) # 0
                     THEN {"KF_UpgradeUtxosLength"} ELSE {})
  IN {<<n, UtxosLengthCode(m)>> : n \in names}

InfoChecks(m) ==
  LET q == QInfo(m) IN
  << <<"info.height", q.height, R.ans.height>>,
     <<"info.tip", q.tip, R.ans.tip>>,
     <<"info.time", q.time, R.ans.time>>,
     <<"info.diff", q.diff, R.ans.diff>>,
     <<"info.utxosLength", UtxosLength(m), R.ans.utxosLength, UtxosLengthAlts(m)>> >>

(***************************************************************************)
(* The metrics endpoint (http_request, api/metrics.rs): answers whatever   *)
(* the gate says; every gauge / counter the abstract state determines is   *)
(* compared.  utxos_length / address_utxos_length are the raw stable maps  *)
(* (partly updated while the anchor's ingestion is paused).                *)
(***************************************************************************)
PartialAddrDelta(m) ==
  IF m.ing.b = 0 THEN 0
  ELSE LET ops == BlockOps(m.ing.b)
           spent(op) == LET o == Ins(op.t)[op.i] IN Outs(o[1])[o[2]].a
       IN SumSeq([i \in 1..m.ing.k |->
                    IF ops[i].kind = "in" THEN (IF spent(ops[i]) > 0 THEN -1 ELSE 0)
                    ELSE IF Outs(ops[i].t)[ops[i].i].a > 0 THEN 1 ELSE 0])

MetricsChecks(m) ==
  IF R.ans.k # "ok" THEN << <<"metrics.answer", "ok", R.ans.k>> >>
  ELSE IF R.path # "/metrics"
  THEN << <<"metrics.notFound", 404, R.ans.status>>, <<"metrics.notFoundHeaders", 0, R.ans.nheaders>> >>
  ELSE
  LET g   == R.ans.g
      L   == LedgerAt(StableTop(m))
      n   == Len(m.T.arr)
      b01(x) == IF x THEN 1 ELSE 0
  IN << <<"metrics.status", 200, R.ans.status>>,
        <<"metrics.contentLength", TRUE, R.ans.clenOk>>,
        <<"metrics.wellformed", TRUE, R.ans.wellformed>>,
        <<"metrics.timestamps", TRUE, R.ans.stampsOk>>,
        <<"metrics.mainChainHeight", TipHeightOf(m), g.main_chain_height>>,
        <<"metrics.stableHeight", Len(m.stable), g.stable_height>>,
        <<"metrics.utxosLength", Cardinality(L) + PartialDelta(m), g.utxos_length>>,
        <<"metrics.addressUtxosLength", Cardinality({e \in L : e.a > 0}) + PartialAddrDelta(m), g.address_utxos_length>>,
        <<"metrics.anchorDifficulty", Diff(m.T.anchor), g.anchor_difficulty>>,
        <<"metrics.stabilityThreshold", m.cfg.thr, g.stability_threshold>>,
        <<"metrics.normalizedThreshold", m.cfg.thr * Diff(m.T.anchor), g.normalized_stability_threshold>>,
        <<"metrics.depthBound", TRUE, RealDepthBoundOK(n, m.cfg.thr, g.testnet_unstable_max_depth_difference)>>,
        <<"metrics.numTips", Cardinality(Leaves(m.T)), g.unstable_blocks_num_tips>>,
        <<"metrics.unstableTotal", n, g.unstable_blocks_total>>,
        <<"metrics.depth", DepthMap(m.T)[m.T.anchor], g.unstable_blocks_depth>>,
        <<"metrics.difficultyDepth", DDMap(m.T)[m.T.anchor], g.unstable_blocks_difficulty_based_depth>>,
        <<"metrics.rejects", m.cnt.rej, g.num_get_successors_rejects>>,
        <<"metrics.deserializeErrors", m.cnt.deser, g.num_block_deserialize_errors>>,
        <<"metrics.insertErrors", m.cnt.ins, g.num_insert_block_errors>>,
        <<"metrics.sendTransactionCount", m.cnt.sendtx, g.send_transaction_count>>,
        <<"metrics.cyclesBurnt", m.cnt.burnt, g.cycles_burnt>>,
        <<"metrics.isSynced", b01(Synced(m)), g.is_synced>>,
        <<"metrics.apiAccess", <<b01(m.cfg.api), b01(~m.cfg.api)>>, <<g.api_access_flag_enabled, g.api_access_flag_disabled>>>>,
        <<"metrics.requests", <<m.cnt.reqInit + m.cnt.reqFollow, m.cnt.reqInit, m.cnt.reqFollow>>,
                              <<g.get_successors_request_count_type_total, g.get_successors_request_count_type_initial,
                                g.get_successors_request_count_type_follow_up>>>>,
        <<"metrics.responses", <<m.cnt.respC + m.cnt.respP + m.cnt.respF, m.cnt.respC, m.cnt.respP, m.cnt.respF>>,
                               <<g.get_successors_response_count_type_total, g.get_successors_response_count_type_complete,
                                 g.get_successors_response_count_type_partial, g.get_successors_response_count_type_follow_up>>>>,
        <<"metrics.responseBlocks", <<m.cnt.blkC + m.cnt.respP + m.cnt.respF, m.cnt.blkC, m.cnt.respP, m.cnt.respF>>,
                               <<g.get_successors_response_block_count_type_total, g.get_successors_response_block_count_type_complete,
                                 g.get_successors_response_block_count_type_partial, g.get_successors_response_block_count_type_follow_up>>>> >>

TraceQuery ==
  /\ Live("q") /\ R.ep \in {"utxos", "balance", "headers", "info", "config", "metrics"}
  /\ UNCHANGED <<vars, bad, nad, upg>>
  /\ lastq' = IF R.ep = "utxos" /\ R.ac = "ok" /\ R.ans.k # "trap"
              THEN [addr |-> R.addr, mc |-> McOf, res |-> IF R.ans.k = "ok" THEN <<"ok", SumSeq([i \in 1..Len(R.ans.utxos) |-> R.ans.utxos[i][3]])>> ELSE <<"err", R.ans.err>>]
              ELSE IF R.ep = "balance" THEN NoQ ELSE lastq
  /\ LET m == St
         checks == CASE R.ep = "utxos"   -> Gated(m, "get_utxos", UtxosChecks(m))
                     [] R.ep = "balance" -> Gated(m, "get_balance", BalanceChecks(m)) \o RelationChecks
                     [] R.ep = "headers" -> Gated(m, "get_block_headers", HeadersChecks(m))
                     \* get_blockchain_info and get_config answer regardless of the gate (C14): a trap is a mismatch
                     [] R.ep = "info"    -> IF R.ans.k # "ok" THEN << <<"gate.answer.get_blockchain_info", "ok", R.ans.k>> >>
                                            ELSE InfoChecks(m)
                     [] R.ep = "config"  -> IF R.ans.k # "ok" THEN << <<"gate.answer.get_config", "ok", R.ans.k>> >>
                                            ELSE << <<"config.value", m.cfg, R.ans.cfg>> >>
                     [] R.ep = "metrics" -> MetricsChecks(m)
     IN AllAgree(checks) \in BOOLEAN

\* the fee query may fill the cache, so it is a state-changing message
TraceFees ==
  /\ Live("q") /\ R.ep = "fees"
  /\ LET m == St
         reasons == GateReasons(m, "get_current_fee_percentiles", NetLower(R.net))
         ev == FeeEval(m)
         refused == reasons # {} \/ ~Enough(m.cfg.fees, "get_current_fee_percentiles", 0, AvailOf)
         m2 == IF refused THEN m ELSE [m EXCEPT !.fee = ev.fee]
     IN /\ Install(m2) /\ UNCHANGED <<uni, nad, lastq, upg>>
        /\ bad' = ~AllAgree(Gated(m, "get_current_fee_percentiles", << <<"fees.values", ev.ans, R.ans.vals>> >>)
                            \o PostChecks(m2, R.post))

(***************************************************************************)
(* Paginated walks (C06): the client keeps the token; the specification    *)
(* keeps what the walk must deliver: the ledger of the address as of the   *)
(* tip named by the first page.                                            *)
(***************************************************************************)
SeqSet(sq) == {sq[i] : i \in 1..Len(sq)}
LimOf(x) == IF x = 0 THEN 1000 ELSE x
MinH(us, dflt) == IF Len(us) = 0 THEN dflt ELSE us[Len(us)][4]

TraceWalkStart ==
  /\ Live("walk_start")
  /\ UNCHANGED <<uni, cfg, stable, tree, ing, next, sync, fee, cnt, now, known, flight, bad, nad, lastq, upg>>
  /\ LET m == St
         reasons == GateReasons(m, "get_utxos", cfg.net)
         c == IF R.mc < 0 THEN 0 ELSE R.mc
     IN IF reasons # {}
        THEN /\ walks' = walks
             /\ AllAgree(<< <<"gate.refuse.get_utxos", "trap", R.ans.k>> >>) \in BOOLEAN
        ELSE IF c > Len(Best(m))
        THEN /\ walks' = walks
             /\ AllAgree(<< <<"walk.error", [k |-> "err", err |-> "MinConfirmationsTooLarge"], R.ans>> >>) \in BOOLEAN
        ELSE IF R.ans.k # "ok"
        THEN /\ walks' = walks
             /\ AllAgree(<< <<"walk.answer", "ok", R.ans.k>> >>) \in BOOLEAN
        ELSE LET v == UtxosView(m, R.addr, c)
                 page == SeqSet(R.ans.utxos)
                 ok == AllAgree(<< <<"walk.tip", v.tip, R.ans.tip>>,
                                   <<"walk.tipHeight", v.tipHeight, R.ans.tipHeight>>,
                                   <<"walk.subset", TRUE, page \subseteq v.entries>>,
                                   <<"walk.once", Cardinality(page), Len(R.ans.utxos)>>,
                                   <<"walk.pageSize", TRUE, Len(R.ans.utxos) <= LimOf(R.limit)>>,
                                   <<"walk.order", TRUE, NonIncreasingHeights(R.ans.utxos)>>,
                                   <<"walk.more", page # v.entries, R.ans.more>> >>)
             IN walks' = IF ok /\ R.ans.more
                         THEN {x \in walks : x.w # R.w} \cup
                              {[w |-> R.w, addr |-> R.addr, tip |-> v.tip, tipHeight |-> v.tipHeight, exp |-> v.entries,
                                seen |-> page, lastH |-> MinH(R.ans.utxos, 1000000000), lim |-> LimOf(R.limit)]}
                         ELSE {x \in walks : x.w # R.w}

TraceWalkNext ==
  /\ Live("walk_next")
  /\ UNCHANGED <<uni, cfg, stable, tree, ing, next, sync, fee, cnt, now, known, flight, bad, nad, lastq, upg>>
  /\ IF ~\E x \in walks : x.w = R.w
     THEN walks' = walks      \* a walk the specification gave up on (already reported)
     ELSE LET m == St
              x == CHOOSE y \in walks : y.w = R.w
              reasons == GateReasons(m, "get_utxos", cfg.net)
          IN IF reasons # {}
             THEN /\ walks' = walks
                  /\ AllAgree(<< <<"gate.refuse.get_utxos", "trap", R.ans.k>> >>) \in BOOLEAN
             ELSE IF x.tip \notin InTree(m.T)
             THEN /\ walks' = {y \in walks : y.w # R.w}
                  /\ AllAgree(<< <<"walk.tipGone", [k |-> "err", err |-> "UnknownTipBlockHash"], R.ans>> >>) \in BOOLEAN
             ELSE IF R.ans.k # "ok"
             THEN /\ walks' = {y \in walks : y.w # R.w}
                  /\ AllAgree(<< <<"walk.answer", "ok", R.ans.k>> >>) \in BOOLEAN
             ELSE LET page == SeqSet(R.ans.utxos)
                      seen2 == x.seen \cup page
                      ok == AllAgree(<< <<"walk.tip", x.tip, R.ans.tip>>,
                                        <<"walk.tipHeight", x.tipHeight, R.ans.tipHeight>>,
                                        <<"walk.subset", TRUE, page \subseteq (x.exp \ x.seen)>>,
                                        <<"walk.once", Cardinality(page), Len(R.ans.utxos)>>,
                                        <<"walk.pageSize", TRUE, Len(R.ans.utxos) <= x.lim>>,
                                        <<"walk.order", TRUE, NonIncreasingHeights(R.ans.utxos)
                                                              /\ (Len(R.ans.utxos) = 0 \/ R.ans.utxos[1][4] <= x.lastH)>>,
                                        <<"walk.progress", TRUE, Len(R.ans.utxos) >= 1 \/ ~R.ans.more>>,
                                        <<"walk.more", seen2 # x.exp, R.ans.more>> >>)
                  IN walks' = IF ok /\ R.ans.more
                              THEN {y \in walks : y.w # R.w} \cup
                                   {[x EXCEPT !.seen = seen2, !.lastH = MinH(R.ans.utxos, x.lastH)]}
                              ELSE {y \in walks : y.w # R.w}

\* an arbitrary byte string as page: an answer or an explicit error, never a trap
TracePageRaw ==
  /\ Live("page_raw")
  /\ UNCHANGED <<vars, bad, nad, lastq, upg>>
  /\ LET m == St
         reasons == GateReasons(m, "get_utxos", cfg.net)
     IN AllAgree(IF reasons # {} THEN << <<"gate.refuse.get_utxos", "trap", R.ans.k>> >>
                 ELSE IF R.len # 72 THEN << <<"page.malformed", [k |-> "err", err |-> "MalformedPage"], R.ans>> >>
                 ELSE IF R.tipId = 0 \/ R.tipId \notin InTree(m.T)
                      THEN << <<"page.unknownTip", [k |-> "err", err |-> "UnknownTipBlockHash"], R.ans>> >>
                 ELSE << <<"page.noTrap", TRUE, R.ans.k # "trap">> >>) \in BOOLEAN

TraceSendTx ==
  /\ Live("send_tx")
  /\ LET m == St
         net == NetLower(R.net)
         o == SendTxOutcome(m, net, R.cls, R.len, AvailOf)
         m2 == SendTx(m, net, R.cls, R.len, AvailOf)
         expAns == CASE o = "ok" -> [k |-> "ok"]
                     [] o = "malformed" -> [k |-> "err", err |-> "MalformedTransaction"]
                     [] OTHER -> [k |-> "trap"]
         gotAns == IF R.ans.k = "trap" THEN [k |-> "trap"] ELSE R.ans
     IN /\ Install(m2) /\ UNCHANGED <<uni, nad, lastq, upg>>
        /\ bad' = ~AllAgree(<< <<"sendtx.answer", expAns, gotAns>>,
                               <<"sendtx.trapReason", TRUE,
                                 R.ans.k # "trap" \/ (IF o = "cycles" THEN R.ans.why = "cycles"
                                                      ELSE R.ans.why \in GateReasons(m, "send_transaction", net))>>,
                               <<"sendtx.forwarded", IF o = "ok" THEN 1 ELSE 0, R.fwd>>,
                               <<"sendtx.forwardedUnchanged", TRUE, R.fwd = 0 \/ R.fwdSame>>,
                               <<"cycles.charged.send_transaction",
                                 IF o \in {"ok", "malformed"} THEN Charged(m.cfg.fees, "send_transaction", TRUE, 0, R.len) ELSE 0,
                                 R.cyc>> >>
                            \o PostChecks(m2, R.post))

\* the driver could not continue (the code under test did something it cannot represent)
TraceAnomaly ==
  /\ Live("anomaly")
  /\ UNCHANGED <<vars, nad, lastq, upg>> /\ bad' = TRUE
  /\ Note("MISMATCH", "trap", <<"the driver was stopped by an unexpected panic", R.msg>>)

TraceNext ==
  \/ TraceAnomaly
  \/ TraceSendTx
  \/ TraceWalkStart \/ TraceWalkNext \/ TracePageRaw
  \/ TraceUniverse \/ Skip \/ TraceTick \/ TraceHb \/ TraceHbSend \/ TraceHbReply
  \/ TraceSetConfig \/ TraceUpgrade \/ TracePush \/ TraceBulkPush \/ TraceIngest
  \/ TraceQuery \/ TraceFees

TraceSpec == TraceInit /\ [][TraceNext]_tvars

\* every record was consumed: the state graph is a line of Len(Rec) + 1 states
TraceAccepted ==
  \/ TLCGet("stats").diameter = Len(Rec) + 1
  \/ PrintT("@@" \o ToJson([kind |-> "UNCONSUMED", diameter |-> TLCGet("stats").diameter, records |-> Len(Rec)])) /\ FALSE

=============================================================================
