SPECIFICATION Spec
CONSTANTS
  NProviders = 4
  MinExp = 2
  Behind = 2
  Ahead = 2
  Mid = 100
INVARIANTS
  LatestRoundOnly
  OrderIrrelevant
  AsWorded
CHECK_DEADLOCK FALSE
