SPECIFICATION Spec
CONSTANTS
  MaxN = 6
  MaxLen = 8
INVARIANTS
  MutationsRepeat
  OriginalAccepted
  OnlyOriginalAccepted
CHECK_DEADLOCK FALSE
