SPECIFICATION Spec
CONSTANTS
  MaxN = 5
  MaxLen = 7
INVARIANTS
  MutationsRepeat
  OriginalAccepted
  OnlyOriginalAccepted
CHECK_DEADLOCK FALSE
