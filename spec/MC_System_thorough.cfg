SPECIFICATION LiveSpec
CONSTANTS
  NProviders = 3
  MinExp = 2
  Behind = 2
  Ahead = 2
  MaxH = 4
  MaxOps = 1
  MaxFaults = 2
  Ticks = {1, 2}
INVARIANTS
  TypeOK
  NoWriteWithoutData
  WritesAreFlags
  SingleTickWritesItsDecision
PROPERTIES
  BehindIsDisabled
  InBandIsEnabled
CHECK_DEADLOCK FALSE
