---------------------------- MODULE MC_Watchdog ----------------------------
(***************************************************************************)
(* The watchdog as a state machine: per-provider storage overwritten by    *)
(* every round; the decision is taken from storage.  Checks that the       *)
(* decision depends only on the bag of the latest round (no stale heights, *)
(* order independence) and the band / quorum conditions as worded in C17.  *)
(***************************************************************************)
EXTENDS Watchdog, TLC

CONSTANTS NProviders, MinExp, Behind, Ahead, Mid

Grid == {None, Mid - Behind - 1, Mid - Behind, Mid, Mid + Ahead, Mid + Ahead + 1}
Providers == 1..NProviders

VARIABLES stored, canister, last      \* last = the results of the latest round, in delivery order

Init == stored = [p \in Providers |-> None] /\ canister = None /\ last = [p \in Providers |-> None]

\* a round fetches every provider; a failed fetch is stored as None (it does not keep the old height)
Round(res, c) == stored' = res /\ canister' = c /\ last' = res

Next == \E res \in [Providers -> Grid], c \in Grid : Round(res, c)
Spec == Init /\ [][Next]_<<stored, canister, last>>

StoredSeq == [p \in Providers |-> stored[p]]
D == Decision(StoredSeq, canister, MinExp, Behind, Ahead)

\* the decision is a function of the latest round's bag only
LatestRoundOnly ==
  D = Decision(last, canister, MinExp, Behind, Ahead)

OrderIrrelevant ==
  \A p, q \in Providers :
    LET sw == [r \in Providers |-> IF r = p THEN last[q] ELSE IF r = q THEN last[p] ELSE last[r]]
    IN Decision(sw, canister, MinExp, Behind, Ahead) = D

\* as worded in the property
AsWorded ==
  LET s == Valid(StoredSeq)
      quorum == /\ Len(s) >= MinExp /\ Len(s) > 0
                /\ Cardinality({i \in 1..Len(s) : Median(s) - Behind <= s[i] /\ s[i] <= Median(s) + Ahead}) >= MinExp
  IN /\ (D.flag # -1 <=> canister # None /\ quorum)
     /\ (D.flag = 1 <=> canister # None /\ quorum /\ Median(s) - Behind <= canister /\ canister <= Median(s) + Ahead)

=============================================================================
