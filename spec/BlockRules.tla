----------------------------- MODULE BlockRules -----------------------------
(***************************************************************************)
(* C12: structural validity of a block body.  Transactions are abstract    *)
(* ids (1 = the coinbase of the original block); the hash is a FREE        *)
(* constructor, i.e. collision free by construction: leaves <<"leaf", id>>,*)
(* inner nodes <<"node", l, r>>.  Bitcoin's rule duplicates the last       *)
(* element of an odd-length level, which is what makes different           *)
(* transaction lists share a root (CVE-2012-2459).                         *)
(***************************************************************************)
EXTENDS Integers, Sequences, FiniteSets, TLC

Leaf(id) == <<"leaf", id>>
Node(a, b) == <<"node", a, b>>

Level(s) ==
  LET t == IF Len(s) % 2 = 1 THEN Append(s, s[Len(s)]) ELSE s
  IN [i \in 1..(Len(t) \div 2) |-> Node(t[2 * i - 1], t[2 * i])]

RECURSIVE RootOfLevel(_)
RootOfLevel(s) == IF Len(s) = 1 THEN s[1] ELSE RootOfLevel(Level(s))

\* merkle root of a non-empty list of transaction ids
Root(m) == RootOfLevel([i \in 1..Len(m) |-> Leaf(m[i])])

HasDup(m) == \E i, j \in 1..Len(m) : i < j /\ m[i] = m[j]
Ident(n) == [i \in 1..n |-> i]

\* the conditions of the property, for a list m checked against the root committed for the original
\* list 1..n whose first transaction (id 1) is the coinbase
NonEmpty(m) == Len(m) >= 1
CoinbaseFirst(m) == Len(m) >= 1 /\ m[1] = 1
RootMatches(m, n) == Len(m) >= 1 /\ Root(m) = Root(Ident(n))
Acceptable(m, n) == NonEmpty(m) /\ CoinbaseFirst(m) /\ RootMatches(m, n) /\ ~HasDup(m)

\* the same for a block whose header commits to the list m itself (rootOK is then true by construction)
AcceptableCommitted(m) == NonEmpty(m) /\ CoinbaseFirst(m) /\ ~HasDup(m)
ErrorsCommitted(m) ==
  (IF ~NonEmpty(m) THEN {"NoTransactions"} ELSE {}) \cup
  (IF NonEmpty(m) /\ ~CoinbaseFirst(m) THEN {"InvalidCoinbase"} ELSE {}) \cup
  (IF HasDup(m) THEN {"DuplicateTransactions"} ELSE {})

\* the error variants that apply to a rejected list (no precedence is fixed by the property)
Errors(m, n) ==
  (IF ~NonEmpty(m) THEN {"NoTransactions"} ELSE {}) \cup
  (IF NonEmpty(m) /\ ~CoinbaseFirst(m) THEN {"InvalidCoinbase"} ELSE {}) \cup
  (IF NonEmpty(m) /\ ~RootMatches(m, n) THEN {"InvalidMerkleRoot"} ELSE {}) \cup
  (IF HasDup(m) THEN {"DuplicateTransactions"} ELSE {})

=============================================================================
