----------------------------- MODULE Transform -----------------------------
(***************************************************************************)
(* C18: what a watchdog HTTP transform returns, as a function of the       *)
(* endpoint kind and of the CLASS of the raw response.                     *)
(*   kind  "json" (height at a JSON path) | "text" (body is the number)    *)
(*   st200 TRUE iff the status is 200                                      *)
(*   cls   NotUtf8 | NotJson | JsonNoPath | JsonWrongType | JsonHeight     *)
(*         | TextHeight | TextOther | Empty                                *)
(*   hs    decimal text of the height (classes JsonHeight / TextHeight)    *)
(* The result never has headers, keeps the status, and its body is empty   *)
(* or the canonical object {"height":N} / {"height":null}.                 *)
(***************************************************************************)
EXTENDS Integers, Sequences, TLC

Kinds == {"json", "text"}
Classes == {"NotUtf8", "NotJson", "JsonNoPath", "JsonWrongType", "JsonHeight", "TextHeight", "TextOther", "Empty"}

Canon(hs) == "{\"height\":" \o hs \o "}"
CanonNull == "{\"height\":null}"

\* classes that can occur for each kind of endpoint
Possible(kind, cls) ==
  IF kind = "json" THEN cls \in {"NotUtf8", "NotJson", "JsonNoPath", "JsonWrongType", "JsonHeight", "Empty"}
  ELSE cls \in {"NotUtf8", "TextHeight", "TextOther", "Empty"}

Body(kind, st200, cls, hs) ==
  IF ~st200 THEN ""
  ELSE IF kind = "json"
       THEN CASE cls = "JsonHeight" -> Canon(hs)
              [] cls \in {"JsonNoPath", "JsonWrongType"} -> CanonNull
              [] OTHER -> ""
       ELSE IF cls = "TextHeight" THEN Canon(hs) ELSE ""

\* shape required by the property, independent of the class
CanonicalShape(body, hs) == body = "" \/ body = CanonNull \/ body = Canon(hs)

=============================================================================
