"""Attribution of trace-validation reports to the listed properties."""

CANISTER_PROPS = ["C01", "C02", "C03", "C04", "C05", "C06", "C07", "C08", "C09", "C10", "C13", "C14", "C15", "C16", "C19", "C20"]


def _filter_kind(tag):
    # utxos.tip.nofilter / utxos.entries.mc0 / balance.value.mc ...
    return tag.rsplit(".", 1)[-1]


def props_of(rep, rec=None):
    """The set of property ids that a MISMATCH / KNOWN report bears on."""
    tag = rep.get("tag", "")
    out = set()
    fk = _filter_kind(tag)
    if tag.startswith("utxos.tip") or tag.startswith("utxos.tipHeight"):
        out |= {"C04"} if fk == "mc" else {"C02", "C01"}
    elif tag.startswith("utxos.entries"):
        out |= {"C04"} if fk == "mc" else {"C01"}
    elif tag in ("utxos.once", "utxos.order"):
        out |= {"C01", "C06"}
    elif tag in ("utxos.pageTip", "utxos.pageSize"):
        out |= {"C06"}
    elif tag in ("utxos.error", "balance.error"):
        out |= {"C05", "C04"}
    elif tag == "utxos.answer":
        out |= {"C01", "C04", "C14"}
    elif tag == "balance.answer":
        out |= {"C05", "C14"}
    elif tag.startswith("balance.value"):
        out |= {"C05"} | ({"C02"} if fk != "mc" else set())
    elif tag.startswith("relation.balance_vs_utxos"):
        out |= {"C05"}
    elif tag.startswith("headers."):
        out |= {"C07"}
        if tag in ("headers.tipHeight", "headers.list") and rec is not None and rec.get("e", 0) == -1:
            out |= {"C02"}
    elif tag == "info.utxosLength":
        out |= {"C08", "C09"} if rep.get("kind") != "KNOWN" else set()
    elif tag.startswith("info."):
        out |= {"C02"}
    elif tag.startswith("gate."):
        out |= {"C14"}
        if tag.endswith("send_transaction"):
            out |= {"C19"}
        if tag.startswith("gate.answer."):
            # the endpoint trapped although it had to answer: also a failure of what that endpoint serves
            ep = tag[len("gate.answer."):]
            out |= {"get_utxos": {"C01", "C04", "C06", "C02"}, "get_balance": {"C05", "C02"},
                    "get_block_headers": {"C07", "C02"}, "get_current_fee_percentiles": {"C15", "C02"}, "get_blockchain_info": {"C02"}, "get_config": {"C09"}}.get(ep, set())
            if rep.get("paused"):
                out.add("C08")
    elif tag.startswith("metrics."):
        # the metrics endpoint (http_request): C14 "get_config, get_blockchain_info and the metrics endpoint answer
        # regardless"; the counters and gauges that listed properties name as observables count for them; the rest
        # of the endpoint is modelled for coverage and reported without a property
        out |= METRIC_PROPS.get(tag, set())
        return out
    elif tag.startswith("cycles."):
        out |= {"C16"}
    elif tag.startswith("sendtx."):
        out |= {"C19"}
        if tag == "sendtx.trapReason":
            out |= {"C14", "C16"}
    elif tag == "fees.values" or tag == "post.fee":
        # C02: "the fee percentiles are answered with respect to that same tip"
        out |= {"C15", "C02"}
        if rep.get("after_upg"):
            # C09: the per-block fee rates are not serialised and are rebuilt after an upgrade; a wrong answer in a
            # run that was upgraded is a run that does not "reach the same observable states as a run without"
            out |= {"C09"}
    elif tag == "config.value" or tag == "post.cfg":
        out |= {"C09", "C14"}
    elif tag in ("post.stableH", "post.hdr", "post.hdrOk"):
        out |= {"C03", "C07"}
    elif tag == "post.tree":
        out |= {"C03", "C10", "C02"}
    elif tag == "post.best":
        out |= {"C02"}
    elif tag == "post.ing":
        out |= {"C08"}
    elif tag in ("post.fetching", "post.resp", "hb.request", "hb.request.net", "hb.outcome", "hb_reply.flight"):
        out |= {"C13"}
    elif tag == "post.next":
        out |= {"C14", "C10", "C20"}
    elif tag == "post.cnt":
        exp, got = rep.get("exp"), rep.get("got")
        if isinstance(exp, dict) and isinstance(got, dict):
            diff = {k for k in set(exp) | set(got) if exp.get(k) != got.get(k)}
        else:
            diff = {"?"}
        if diff - {"sendtx", "burnt"}:
            out |= {"C10", "C13"}
        # (the cycles-burnt counter is modelled for coverage of the heartbeat; no listed property speaks of it)
        if "sendtx" in diff or (rec is not None and rec.get("ev") == "send_tx"):
            out |= {"C19"}              # "counts the request ... in none of these cases is anything forwarded or counted"
    elif tag.startswith("book."):
        out |= {"C20"}
    elif tag == "push.result":
        out |= {"C10"}
    elif tag.startswith("walk.") or tag.startswith("page."):
        out |= {"C06"}
    elif tag.startswith("ingest."):
        out |= {"C08", "C03"}
    elif tag.startswith("finality."):
        out |= {"C03"}
    elif tag == "trap":
        out |= set(CANISTER_PROPS)
    else:
        out |= set(CANISTER_PROPS)
    if rep.get("paused"):
        out.add("C08")
    if rec is not None and rec.get("ev") in ("hb", "hb_send", "ingest") and (rec.get("budget") or 0) > 0 and tag.startswith("post."):
        # C08: "the complete observable state afterwards is identical to that of a run in which nothing was
        # sliced" - a wrong post-state of a heartbeat that ran under an instruction budget
        out.add("C08")
    if rec is not None and rec.get("ev") in ("q", "send_tx") and tag.startswith("post.") \
            and isinstance(rec.get("ans"), dict) and rec["ans"].get("k") == "trap":
        # C14: a refused call has no effect
        out.add("C14")
    if tag.startswith("cycles.refused"):
        out.add("C14")
    if rep.get("upg") or (rec is not None and rec.get("ev") == "upgrade"):
        out.add("C09")
    return out


METRIC_PROPS = {
    # C14 says that the endpoint answers regardless of the gate: a trap or a status other than 200 for /metrics;
    # headers, other paths and the text format are compared but no listed property speaks about them
    "metrics.answer": {"C14"}, "metrics.status": {"C14"}, "metrics.isSynced": {"C14"}, "metrics.apiAccess": {"C14"},
    "metrics.mainChainHeight": {"C02"}, "metrics.stableHeight": {"C03"},
    "metrics.rejects": {"C10", "C13"}, "metrics.deserializeErrors": {"C10"}, "metrics.insertErrors": {"C10"},
    "metrics.requests": {"C13"}, "metrics.responses": {"C13"},
    "metrics.sendTransactionCount": {"C19"},
    "metrics.numTips": {"C20"}, "metrics.unstableTotal": {"C20", "C10"}, "metrics.depth": {"C20"},
}

# known-finding names -> the property they are recorded under
KF_PROPERTY = {
    "KF_PausedUtxosLength": "C08",
    "KF_UpgradeUtxosLength": "C09",
    "KF_ThresholdRaiseWhilePaused": "C03",
    "KF_TieDepthEscape": "C03",
}
