"""Per-property check plans and their execution."""
import json
import os
import time

import gen
import props
import runner
import scen
import models
import tlcgen

VERIF = os.path.dirname(os.path.dirname(os.path.abspath(__file__)))   # /verif, or a snapshot of it
KF_FILE = os.path.join(VERIF, "known_findings.json")

ASSUMPTIONS = [
    "the canister is driven natively as a Rust library (like its own unit tests); IC message atomicity and "
    "trap-rollback are assumed, candid decoding / inspect_message / the metrics HTTP endpoint are not exercised",
    "blocks are regtest blocks with real proof of work when they travel through heartbeat(); on mainnet/testnet "
    "they are inserted with unstable_blocks::push because their proof of work cannot be mined",
    "per-block difficulties are injected through the mock_difficulty / verif registry",
    "the block source stays within the domain of C13 (follow-up k answered with data iff k < announced pages)",
]


def load_kf():
    with open(KF_FILE) as f:
        return json.load(f)


def open_findings(kf):
    return {x["id"]: x for x in kf.get("findings", []) if x.get("status") == "open"}


# ---------------------------------------------------------------------------------------------
# plans
# ---------------------------------------------------------------------------------------------
def n(tier, quick, thorough):
    return quick if tier == "quick" else thorough


def plan(pid, tier, seed):
    """Returns (model list, scenario list) for a property."""
    S = []
    M = []
    base = seed * 1000
    if pid in ("C02", "C03", "C04", "C05", "C07"):
        # complete enumeration of small fork trees (specification -> implementation)
        S += scen.enum_trees(tier, seed)
    if pid in ("C01", "C04", "C05"):
        S += scen.directed(pid, tier)
        S += [gen.random_history(base + i, nblocks=n(tier, 14, 22), heavy_probes=True) for i in range(n(tier, 40, 1000))]
        S += [gen.random_history(base + 500 + i, net=nt, full=False, nblocks=n(tier, 14, 22), heavy_probes=True)
              for i, nt in enumerate(["mainnet", "testnet"] * n(tier, 8, 200))]
        M += models.for_property(pid, tier)
    elif pid in ("C02", "C03"):
        S += scen.directed(pid, tier)
        S += [gen.random_history(base + i, nblocks=n(tier, 16, 26), diffs=(1, 2, 3), defects=False) for i in range(n(tier, 40, 1000))]
        S += [gen.random_history(base + 500 + i, net=nt, full=False, nblocks=n(tier, 16, 26), diffs=(1, 2, 3, 5, 8))
              for i, nt in enumerate(["mainnet", "testnet", "regtest"] * n(tier, 8, 150))]
        S += [scen.stability_history(base + 800 + i) for i in range(n(tier, 150, 4000))]
        S += tlcgen.corpus_scenarios(seed, n(tier, 150, 600))
        M += models.for_property(pid, tier)
    elif pid in ("C06",):
        S += scen.directed(pid, tier)
        S += [scen.paging_history(base + i, nblocks=n(tier, 12, 20)) for i in range(n(tier, 40, 1500))]
        S += [scen.big_address_history(seed, per_block=1100, nblocks=n(tier, 3, 5))]
        M += models.for_property(pid, tier)
    elif pid in ("C07", "C08"):
        S += scen.directed(pid, tier)
        S += [scen.sliced_history(base + i, nblocks=n(tier, 10, 16)) for i in range(n(tier, 40, 1500))]
        M += models.for_property(pid, tier)
    elif pid == "C09":
        S += scen.directed(pid, tier)
        S += [scen.upgrade_history(base + i, nblocks=n(tier, 12, 18)) for i in range(n(tier, 40, 1500))]
        S += [scen.fee_cut_history(seed + 1, upgrade_before=3, distinct=True)]
        M += models.for_property(pid, tier)
    elif pid in ("C10", "C13", "C14", "C15", "C20"):
        S += scen.directed(pid, tier)
        S += [scen.profile_history(pid, base + i, tier) for i in range(n(tier, 40, 1500))]
        if pid in ("C10", "C14", "C20"):
            S += tlcgen.corpus_scenarios(seed, n(tier, 100, 600))
        if pid == "C15":
            # more than 10,000 fee-paying transactions on the best chain (13,600; the cut falls inside a block),
            # and a small one
            S += [scen.fee_cut_history(seed), scen.fee_cut_history(seed, per_block=40, nblocks=3)]
            # the same with an upgrade before the last block: recomputation from block bodies, cut inside a block
            # received before the upgrade, every fee different
            S += [scen.fee_cut_history(seed + 1, upgrade_before=3, distinct=True)]
        if pid == "C15" and tier == "thorough":
            S += [scen.fee_cut_history(seed + k, per_block=pb, nblocks=nbk) for k, (pb, nbk) in
                  enumerate([(2500, 4), (2501, 4), (5000, 2), (5001, 2), (3333, 3), (3334, 3), (9999, 1), (10000, 1), (10001, 1), (1999, 6)])]
        M += models.for_property(pid, tier)
    elif pid == "C16":
        S += [scen.cycles_history(base + i, nblocks=n(tier, 8, 14)) for i in range(n(tier, 40, 1500))]
        S += [scen.sendtx_history(base + 700 + i, n=n(tier, 40, 150)) for i in range(n(tier, 12, 200))]
        M += models.for_property(pid, tier)
    elif pid == "C19":
        S += [scen.sendtx_history(base + i, n=n(tier, 150, 400)) for i in range(n(tier, 40, 1500))]
        M += models.for_property(pid, tier)
    else:
        raise runner.ToolError(f"no plan for property {pid}")
    S = [with_metrics(sc) for sc in S]
    return M, S


METRIC_PATHS = [("/metrics", None), ("/metrics", "x=1"), ("/", None), ("/metrics/", None), ("", None), ("/Metrics", None),
                ("/metrics", "a?b"), ("/nope", "metrics")]


def with_metrics(sc, budget=24):
    """Inserts requests to the metrics endpoint (http_request) after state-changing messages of a scenario: at
    most `budget` per scenario, evenly spread, deterministic; every eighth one asks for another path / query."""
    cmds = sc.get("cmds")
    if not cmds or any(c.get("ep") == "metrics" for c in cmds):
        return sc
    pos = [i for i, c in enumerate(cmds) if c.get("c") in ("hb", "hb_reply", "upgrade", "set_config", "send_tx", "ingest", "push", "bulk_push")]
    if not pos:
        return sc
    if len(sc.get("blocks", [])) > 100 or len(sc.get("txs", [])) > 1000:
        budget = 3          # every evaluation on a large universe is expensive for TLC
    step = max(1, -(-len(pos) // budget))
    chosen = set(pos[::step]) | {pos[-1]}
    out = []
    k = 0
    for i, c in enumerate(cmds):
        out.append(c)
        if i in chosen:
            k += 1
            out.append({"c": "q", "ep": "metrics"})
            if k % 8 == 0:
                path, query = METRIC_PATHS[(k // 8) % len(METRIC_PATHS)]
                d = {"c": "q", "ep": "metrics", "path": path}
                if query is not None:
                    d["query"] = query
                out.append(d)
    sc = dict(sc)
    sc["cmds"] = out
    return sc


# ---------------------------------------------------------------------------------------------
# execution
# ---------------------------------------------------------------------------------------------
def segments(trace):
    """[(start_line(1-based), name)] for each universe record."""
    segs = []
    for i, r in enumerate(trace, start=1):
        if r.get("ev") == "universe":
            segs.append((i, r.get("name", "")))
    return segs


def seg_of(segs, line):
    k = -1
    for i, (start, _name) in enumerate(segs):
        if start <= line:
            k = i
    return k


def coverage_from_trace(trace):
    evs = {}
    distinct = set()
    for r in trace:
        ev = r.get("ev")
        evs[ev] = evs.get(ev, 0) + 1
        if ev == "q":
            a = r.get("ans", {})
            nontrivial = a.get("k") != "ok" or bool(a.get("utxos")) or bool(a.get("headers")) or bool(a.get("vals")) \
                or a.get("v", 0) != 0 or "height" in a
            if nontrivial:
                distinct.add(json.dumps([r.get("ep"), r.get("addr"), r.get("mc"), r.get("s"), r.get("e"), a], sort_keys=True))
        elif "post" in r:
            p = r["post"]
            if len(p.get("tree", [])) >= 2:
                distinct.add(json.dumps([ev, p.get("tree"), p.get("stableH"), p.get("ing"), p.get("resp"), p.get("next")], sort_keys=True))
    return evs, len(distinct)


def write_evidence(pid, tier, seed, level, cov, wall, violations):
    ev = {"property_id": pid, "tier": tier, "seed": seed, "level": level, "coverage": cov,
          "assumptions": ASSUMPTIONS, "wall_s": round(wall, 2), "violations": violations}
    os.makedirs(os.path.join(VERIF, "evidence"), exist_ok=True)
    with open(os.path.join(VERIF, "evidence", pid + ".json"), "w") as f:
        json.dump(ev, f, indent=1)


def classify(pid, reports, trace, kf_open):
    """Splits reports into violations / known findings / unrelated / tool errors."""
    viol, known, other, tool = [], [], [], []
    # lines that come after an upgrade of their own scenario
    after_upg = []
    seen_upg = False
    for r in trace:
        if r.get("ev") == "universe":
            seen_upg = False
        after_upg.append(seen_upg)
        if r.get("ev") == "upgrade":
            seen_upg = True
    for rep in reports:
        kind = rep.get("kind")
        rec = trace[rep["l"] - 1] if "l" in rep and 0 < rep["l"] <= len(trace) else None
        if rec is not None and after_upg[rep["l"] - 1]:
            rep["after_upg"] = True
        if kind in ("TOOLERROR", "TLCERROR", "UNCONSUMED"):
            tool.append(rep)
        elif kind == "KNOWN":
            names = rep.get("kf", [])
            listed = [x for x in names if x in kf_open]
            if listed and len(listed) == len(names):
                if any(kf_open[x]["property"] == pid for x in listed):
                    known.append((rep, listed))
            else:
                # a deviation that is not (or no longer) listed is a violation of its property
                if any(props.KF_PROPERTY.get(x) == pid for x in names):
                    viol.append(rep)
                else:
                    other.append(rep)
        elif kind == "EXPECTEDTRAP":
            names = [rep.get("tag")]
            other.append(rep)
        elif kind == "MISMATCH":
            if pid in props.props_of(rep, rec):
                viol.append(rep)
            else:
                other.append(rep)
        else:
            other.append(rep)
    return viol, known, other, tool


def run_trace_stage(pid, scenarios, wd, kf_open):
    tp = runner.run_scenarios(scenarios, wd)
    trace = runner.load_trace(tp)
    res = runner.validate_trace(tp, wd)
    viol, known, other, tool = classify(pid, res["reports"], trace, kf_open)
    return {"trace": trace, "trace_path": tp, "res": res, "viol": viol, "known": known, "other": other, "tool": tool}


def save_replay(pid, seed, idx, scenario, rep):
    os.makedirs(os.path.join(VERIF, "replays"), exist_ok=True)
    path = os.path.join(VERIF, "replays", f"{pid}-{seed}-{idx}.json")
    with open(path, "w") as f:
        json.dump({"property": pid, "report": rep, "scenario": scenario}, f)
    return path


def run_check(pid, tier, seed, t0):
    if pid in decision_props():
        import decide
        return decide.run_check(pid, tier, seed, t0)
    kf = load_kf()
    kf_open = open_findings(kf)
    wd = runner.workdir(f"check-{pid}-{tier}")
    runner.build_harness()
    M, S = plan(pid, tier, seed)
    # (M) model checking of the specification
    mstats = {"states": 0, "transitions": 0, "runs": []}
    for m in M:
        r = models.run_model(m, wd)
        mstats["runs"].append(r["summary"])
        mstats["states"] += r["summary"].get("distinct", 0)
        mstats["transitions"] += r["summary"].get("generated", 0)
        if not r["ok"]:
            print(f"TOOL-ERROR: model {m['name']} did not pass: {r['why']}")
            print(r["tail"])
            return 2
    # (V) trace validation of executions of the real code
    st = run_trace_stage(pid, S, wd, kf_open)
    trace = st["trace"]
    segs = segments(trace)
    evs, distinct = coverage_from_trace(trace)
    extra_cov = {}
    if pid == "C16":
        import decide
        ds = decide.run_stage("C16", tier, seed, wd)
        for rep in ds["res"]["reports"]:
            if rep.get("kind") == "MISMATCH":
                rep = dict(rep)
                rep["decision_record"] = ds["records"][rep["l"] - 1] if 0 < rep.get("l", 0) <= len(ds["records"]) else None
                rep["l"] = 1
                st["viol"].append(rep)
            elif rep.get("kind") in ("TLCERROR", "TOOLERROR", "UNCONSUMED"):
                st["tool"].append(rep)
        extra_cov = {"fee_cover_records": len(ds["records"]), "fee_cover_validation": ds["res"]["stats"], "fee_cover_models": ds["model_runs"]}
        mstats["runs"] += ds["model_runs"]
        mstats["states"] += sum(x.get("distinct", 0) for x in ds["model_runs"])
        mstats["transitions"] += sum(x.get("generated", 0) for x in ds["model_runs"])
    rc = 0
    if st["tool"]:
        for rep in st["tool"][:5]:
            print("TOOL-ERROR:", json.dumps(rep)[:2000])
        rc = 2
    # known findings: one line per listed finding that was exercised
    printed = set()
    for rep, names in st["known"]:
        for x in names:
            if x not in printed and kf_open[x]["property"] == pid:
                printed.add(x)
                print(f"KNOWN-FINDING: property={pid} {x}: {kf_open[x]['what']}")
    nviol = 0
    seen_seg = set()
    for rep in st["viol"]:
        k = seg_of(segs, rep["l"])
        if k in seen_seg:
            continue
        seen_seg.add(k)
        nviol += 1
        path = save_replay(pid, seed, nviol, S[k] if 0 <= k < len(S) else None, rep)
        print(f"VIOLATION property={pid} replay={path}")
        print("  ", json.dumps(rep)[:600])
        if nviol >= 5:
            break
    if st["other"]:
        tags = sorted({r.get("tag", "?") for r in st["other"] if r.get("kind") == "MISMATCH"})
        if tags:
            print(f"NOTE: {len(st['other'])} reports that do not bear on {pid} (tags: {', '.join(tags)[:300]})")
    samples = []
    seen_kinds = {}
    for r in trace:
        k = (r.get("ev"), r.get("ep"))
        if r.get("ev") in ("universe", "skip", "tick") or seen_kinds.get(k, 0) >= 1 or len(samples) >= 8:
            continue
        seen_kinds[k] = 1
        d = {kk: vv for kk, vv in r.items() if kk != "post"}
        if "post" in r:
            d["post_tree"] = r["post"].get("tree")
            d["post_stableH"] = r["post"].get("stableH")
        samples.append(d)
    if not samples:
        samples = [{kk: vv for kk, vv in r.items() if kk != "uni"} for r in trace[:2]]
    cov = {
        "states": max(1, mstats["states"]) if mstats["runs"] else max(1, st["res"]["stats"].get("distinct", 1)),
        "transitions": max(1, mstats["transitions"]) if mstats["runs"] else max(1, st["res"]["stats"].get("generated", 1)),
        "traces_validated_against_impl": len(segs),
        "samples": samples,
        "evaluations": len(trace),
        "distinct_nontrivial": distinct,
        "rule": "one evaluation per recorded message (heartbeat, query, upgrade, ...) validated by TLC against "
                "Canister.tla; distinct = distinct non-empty query answers and distinct post-states with >= 2 "
                "unstable blocks",
        "events_by_kind": evs,
        "model_runs": mstats["runs"],
        "trace_validation": st["res"]["stats"],
        "known_findings_exercised": sorted(printed),
        "exhaustive": False,
    }
    cov.update(extra_cov)
    if nviol > 0:
        rc = 1          # a violation that was found is reported as such even if another part of the run had a tool error
    write_evidence(pid, tier, seed, "model_checking", cov, time.time() - t0, nviol)
    return rc


def decision_props():
    return {"C11", "C12", "C17", "C18"}


def replay(pid, path):
    with open(path) as f:
        data = json.load(f)
    sc = data.get("scenario")
    if not sc and pid in decision_props():
        import decide
        import time as _t
        print(f"replaying the decision inputs of {pid} (tier {data.get('tier', 'quick')}, seed {data.get('seed', 1)})")
        rc = decide.run_check(pid, data.get("tier", "quick"), int(data.get("seed", 1)), _t.time())
        # (the evidence file is rewritten by this run like by any run of the check)
        return rc
    if not sc:
        print("replay file holds no scenario")
        return 2
    kf_open = open_findings(load_kf())
    wd = runner.workdir(f"replay-{pid}")
    runner.build_harness()          # a replay, too, runs the code of /repo's current working tree
    st = run_trace_stage(pid, [sc], wd, kf_open)
    for rep in st["viol"][:10]:
        print("MISMATCH", json.dumps(rep)[:1500])
    print(f"replayed {sc.get('name')}: {len(st['viol'])} reports bearing on {pid}, trace at {st['trace_path']}")
    return 1 if st["viol"] else (2 if st["tool"] else 0)
