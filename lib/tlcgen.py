"""Specification -> implementation: behaviours produced by TLC simulation of MC_TreeGen are turned
into harness scenarios (real regtest blocks delivered through heartbeat())."""
import json
import os
import random
import subprocess

import runner
from gen import complete, item, probes, q


def simulate(seed, seconds, wd, cfg="MC_TreeGen.cfg"):
    meta = os.path.join(wd, "meta-gen")
    cmd = ["timeout", str(seconds), "tlc", "-workers", "1", "-simulate", "num=100000000", "-depth", "33", "-seed", str(seed),
           "-metadir", meta, "-cleanup", "-noGenerateSpecTE", "-config", cfg, "MC_TreeGen.tla"]
    env = dict(os.environ)
    env["JAVA_TOOL_OPTIONS"] = "-Xss1g -Xmx4g"
    p = subprocess.run(cmd, cwd=runner.SPEC, env=env, stdout=subprocess.PIPE, stderr=subprocess.STDOUT, text=True)
    seen = set()
    out = []
    for line in p.stdout.splitlines():
        if line.startswith('"@@') and line not in seen:
            seen.add(line)
            try:
                out.append(json.loads(runner._unescape(line)[2:]))
            except Exception:
                pass
    if "Error:" in p.stdout and "Parsing or semantic analysis failed" in p.stdout:
        raise runner.ToolError("MC_TreeGen does not parse:\n" + p.stdout[-2000:])
    return out


def to_scenario(beh, idx, seed):
    rng = random.Random(seed * 7919 + idx)
    hist = beh["hist"]
    init = hist[0]
    addrs = [{"id": 1, "kind": "p2wpkh"}, {"id": 2, "kind": "prefix_of", "of": 1}, {"id": 3, "kind": rng.choice(["p2pkh", "p2sh", "p2tr", "p2wsh"])}]
    blocks = []
    txs = []
    times = {1: 0}
    cmds = [{"c": "tick", "dt": 1000000}]
    nb = 1
    for h in hist[1:]:
        a = h["a"]
        if a == "mine":
            nb += 1
            tid = len(txs) + 2
            txs.append({"id": tid, "ins": [], "outs": [{"a": rng.randint(1, 3), "v": rng.choice([0, 5, 700])}], "w": False})
            times[nb] = times[h["p"]] + 600
            blocks.append({"id": nb, "parent": h["p"], "diff": h["d"], "time": times[nb], "txs": [tid]})
        elif a == "hb":
            cmd = {"c": "hb", "initial": complete([b for b in h["blocks"] if b <= nb], [item(b) for b in h["hdrs"] if b <= nb])}
            if h["budget"] == 1:
                cmd["budget"] = 1
            cmds.append(cmd)
            cmds += [q("info"), q("headers", s=0, e=-1)]
            for ad in (1, 2, 3):
                mc = rng.choice([-1, 0, 1, 2, 3])
                cmds.append(q("utxos", addr=ad, mc=mc, limit=rng.choice([0, 1])))
                cmds.append(q("balance", addr=ad, mc=mc))
        elif a == "thr":
            cmds.append({"c": "set_config", "d": {"thr": h["thr"]}})
        elif a == "upgrade":
            cmds.append({"c": "upgrade", "d": {}})
            cmds.append(q("info"))
    cfg = {"net": init["net"], "thr": init["thr"], "seed": seed, "lazy": True, "gate": False}
    return {"name": f"tlc-sim-{seed}-{idx}", "config": cfg, "addrs": addrs, "txs": txs, "blocks": blocks, "cmds": cmds}


def scenarios(seed, n, wd, seconds=12):
    behs = simulate(seed, seconds, wd)
    rng = random.Random(seed)
    rng.shuffle(behs)
    return [to_scenario(b, i, seed) for i, b in enumerate(behs[:n])], len(behs)


CORPUS = os.path.join(runner.SPEC, "generated", "MC_TreeGen-seed11.ndjson")


def corpus_scenarios(seed, n):
    """Scenarios from the committed corpus of TLC-generated behaviours (the corpus depends only on the
    specification; `bin/gen-behaviours` regenerates it)."""
    with open(CORPUS) as f:
        behs = [json.loads(x) for x in f if x.strip()]
    rng = random.Random(seed)
    rng.shuffle(behs)
    return [to_scenario(b, i, seed) for i, b in enumerate(behs[:n])]
