"""Checks decided by the stateless decision specifications (TraceDecision.tla):
C17 (watchdog decision), C18 (HTTP transforms), C12 (block structure), C11 (header rules),
and the constant-table half of C16."""
import itertools
import json
import os
import random
import subprocess
import time

import models
import runner

VERIF = os.path.dirname(os.path.dirname(os.path.abspath(__file__)))   # /verif, or a snapshot of it

ASSUMPTIONS = [
    "the implementation's functions are called natively through the `verif` hooks (watchdog::verif_hooks, "
    "HeaderValidator::verif_required_target) or their public API; HTTP outcalls go to the repository's ic_http mocks",
    "TLC and the TLA+ decision operators (Watchdog.tla, Transform.tla, BlockRules.tla, HeaderRules.tla, BigNat.tla) are trusted",
]


def run_decide(inputs, wd, name="decide"):
    runner.build_harness()
    ip = os.path.join(wd, name + ".in.ndjson")
    op = os.path.join(wd, name + ".out.ndjson")
    with open(ip, "w") as f:
        for x in inputs:
            f.write(json.dumps(x, separators=(",", ":")) + "\n")
    p = subprocess.run([runner.HARNESS_BIN, "decide", ip, op], stdout=subprocess.DEVNULL, stderr=subprocess.PIPE,
                       text=True, timeout=3600, env=runner.harness_env())
    if p.returncode != 0:
        raise runner.ToolError("harness decide failed:\n" + p.stderr[-4000:])
    return op


def validate_decisions(path, wd, timeout=1800, module="TraceDecision"):
    rc, out, wall = runner.run_tlc(module, module + ".cfg", wd, env={"TRACE": path}, timeout=timeout)
    reps = runner.parse_reports(out)
    ok = "Model checking completed. No error has been found." in out
    if not ok:
        reps.append({"kind": "TLCERROR", "tag": "tlc", "detail": out[-3000:]})
    return {"reports": reps, "accepted": ok, "stats": runner.tlc_stats(out), "wall": wall}


# ---------------------------------------------------------------------------------------------
# C17
# ---------------------------------------------------------------------------------------------
TARGETS = {"bitcoin_mainnet": 6, "bitcoin_mainnet_staging": 6, "bitcoin_testnet": 1, "dogecoin_mainnet": 4,
           "dogecoin_mainnet_staging": 4}
FAILS = ["http500", "http404", "badjson", "nofield", "negative", "float", "string", "empty", "toolarge", "reject"]
# heights on the grid {M-b-1, M-b, M, M+a, M+a+1} as (behind factor, ahead factor, constant)
GRID = [(-1, 0, -1), (-1, 0, 0), (0, 0, 0), (0, 1, 0), (0, 1, 1)]


def watchdog_inputs(tier, seed):
    rng = random.Random(seed)
    inputs = []
    for target, n in TARGETS.items():
        opts = GRID + [None]
        combos = list(itertools.combinations_with_replacement(range(len(opts)), n))
        cans = GRID + [None]
        rounds = []
        for combo in combos:
            for c in cans:
                rounds.append((combo, c))
        rng.shuffle(rounds)
        if tier == "quick":
            rounds = rounds[:400]
        out = []
        for combo, c in rounds:
            res = []
            for k in combo:
                if opts[k] is None:
                    res.append({"k": rng.choice(FAILS), "rel": [0, 0, rng.choice([0, 5, -7])]})
                else:
                    res.append({"k": "ok", "rel": list(opts[k])})
            rng.shuffle(res)           # which explorer reports which height is irrelevant
            out.append({"canister": list(c) if c is not None else None, "results": res})
        # random wide-spread rounds (heights far apart, duplicates)
        for _ in range(100 if tier == "quick" else 2000):
            res = []
            for _i in range(n):
                if rng.random() < 0.25:
                    res.append({"k": rng.choice(FAILS), "rel": [0, 0, 0]})
                else:
                    res.append({"k": "ok", "rel": [0, 0, rng.choice([0, 0, 1, -1, 2, -2, 3, -3, 10, -10, 1000, -1001, 2000])]})
            out.append({"canister": rng.choice([None, [0, 0, rng.choice([0, 1, -1, 2, -2, 3, 5, -4, 999, 1001, -1000, -1001])]]), "results": res})
        inputs.append({"fn": "watchdog", "target": target, "base": 800000, "rounds": out})
    return inputs


# ---------------------------------------------------------------------------------------------
# C18
# ---------------------------------------------------------------------------------------------
ENDPOINT_FORMATS = {
    "bitcoin_mainnet_api_bitcore_io": ("json", '[{"chain":"BTC","height":H,"hash":"00"}]'),
    "bitcoin_mainnet_api_blockchair_com": ("json", '{"data":{"blocks":1,"best_block_height":H,"best_block_hash":"00"},"context":{"code":200}}'),
    "bitcoin_mainnet_api_blockcypher_com": ("json", '{"name":"BTC.main","height":H,"hash":"00"}'),
    "bitcoin_mainnet_blockchain_info": ("text", "H"),
    "bitcoin_mainnet_blockstream_info": ("text", "H"),
    "bitcoin_mainnet_mempool": ("text", "H"),
    "bitcoin_testnet_mempool": ("text", "H"),
    "dogecoin_mainnet_api_bitcore_io": ("json", '[{"chain":"DOGE","height":H,"hash":"00"}]'),
    "dogecoin_mainnet_api_blockchair_com": ("json", '{"data":{"blocks":1,"best_block_height":H,"best_block_hash":"00"},"context":{"code":200}}'),
    "dogecoin_mainnet_api_blockcypher_com": ("json", '{"name":"DOGE.main","height":H,"hash":"00"}'),
    "dogecoin_mainnet_psy_protocol": ("text", "H"),
}
HEIGHTS = ["0", "1", "7", "812345", "4294967296", "9007199254740993", "18446744073709551615"]
WRONG = ["-5", "1.5", '"812345"', "null", "true", "[1]", "{}", "18446744073709551616", "1e3", "-0.0"]
STATUSES = ["200", "200", "200", "200", "404", "500", "0", "301", "201", "99999999999999999999"]


def json_variants(rng, template, value):
    """Different concrete JSON texts that carry the same height member."""
    body = template.replace("H", value)
    outs = [body]
    obj = json.loads(template.replace("H", "1"))
    # whitespace
    outs.append(body.replace(":", " : ").replace(",", " ,\n\t"))
    outs.append("  \n" + body + "\n ")
    # extra members and reordering, keeping the extracted member
    def rebuild(o):
        if isinstance(o, list):
            inner = rebuild(o[0])
            return "[" + inner + ',{"height":3,"junk":[1,2,{"a":null}]}]'
        items = []
        for k, v in o.items():
            if isinstance(v, dict):
                items.append(json.dumps(k) + ":" + rebuild(v))
            elif k in ("height", "best_block_height"):
                items.append(json.dumps(k) + ":" + value)
            else:
                items.append(json.dumps(k) + ":" + json.dumps(v))
        items.append('"zz_extra":{"height":999,"x":[true,false,null,1.5e10,"s\\u00e9"]}')
        rng.shuffle(items)
        return "{" + ",".join(items) + "}"
    outs.append(rebuild(obj))
    return outs


def rand_headers(rng):
    return [[rng.choice(["date", "set-cookie", "x-request-id", "cf-ray", "content-type"]), "v%d" % rng.randint(0, 10 ** 9)]
            for _ in range(rng.randint(0, 4))]


def transform_inputs(tier, seed):
    rng = random.Random(seed)
    inputs = []

    def add(ep, kind, cls, hs, body_bytes, status=None):
        st = status if status is not None else rng.choice(STATUSES)
        inputs.append({"fn": "transform", "endpoint": ep, "kind": kind, "cls": cls, "hs": hs, "status": st,
                       "headers": rand_headers(rng), "body": body_bytes.hex(), "context": rng.choice(["", "00", "ffee"])})

    for ep, (kind, tpl) in ENDPOINT_FORMATS.items():
        for h in HEIGHTS:
            if kind == "json":
                for b in json_variants(rng, tpl, h):
                    add(ep, kind, "JsonHeight", h, b.encode())
                    add(ep, kind, "JsonHeight", h, b.encode(), status="200")
            else:
                for b in [h, "+" + h, "00" + h]:
                    canon = str(int(h))
                    add(ep, kind, "TextHeight", canon, b.encode())
                    add(ep, kind, "TextHeight", canon, b.encode(), status="200")
        if kind == "json":
            for wv in WRONG:
                for b in json_variants(rng, tpl, wv):
                    add(ep, kind, "JsonWrongType", "0", b.encode(), status="200")
            for b in ["{}", "[]", '{"other":1}', '"str"', "123", "null", '{"data":{}}', '[{"hash":"00"}]', '{"data":7}', "[[]]"]:
                add(ep, kind, "JsonNoPath", "0", b.encode(), status="200")
            full = tpl.replace("H", "812345")
            cuts = range(1, len(full)) if tier == "thorough" else sorted(rng.sample(range(1, len(full)), min(12, len(full) - 1)))
            for c in cuts:
                add(ep, kind, "NotJson", "0", full[:c].encode(), status="200")
            for b in ["not json", "<html>", "{'height':1}", '{"height":1,}', "NaN"]:
                add(ep, kind, "NotJson", "0", b.encode(), status="200")
            # long bodies that are text but not JSON (error pages), with multi-byte characters at every offset
            offsets = range(0, 260) if tier == "thorough" else sorted(set(list(range(94, 106)) + rng.sample(range(0, 260), 25)))
            for k in offsets:
                page = "<html><body>" + "x" * k + rng.choice(["é", "✓", "😀", "ß漢"]) + " upstream error " + "y" * rng.choice([0, 40, 150]) + "</body></html>"
                add(ep, kind, "NotJson", "0", page.encode(), status="200")
                if rng.random() < 0.3:
                    add(ep, kind, "NotJson", "0", page.encode())
        else:
            for b in ["12 ", " 12", "12\n", "-1", "1.0", "abc", "18446744073709551616", "0x10", "1_000", "١٢"]:
                add(ep, kind, "TextOther", "0", b.encode(), status="200")
            for k in (sorted(rng.sample(range(0, 260), 12)) + [98, 99, 100]):
                page = "<html>" + "x" * k + "é✓😀" + "y" * 60
                add(ep, kind, "TextOther", "0", page.encode(), status="200")
        for b in [b"\xff\xfe", b'{"height":1}\xff', b"12\x80"]:
            add(ep, kind, "NotUtf8", "0", b, status="200")
        add(ep, kind, "Empty", "0", b"", status="200")
        add(ep, kind, "Empty", "0", b"")
        # arbitrary byte strings: only totality and the canonical shape are required
        for _ in range(60 if tier == "quick" else 3000):
            n = rng.choice([0, 1, 2, 5, 12, 40, 200])
            b = bytes(rng.getrandbits(8) for _ in range(n))
            if rng.random() < 0.4:
                b = tpl.replace("H", str(rng.getrandbits(rng.choice([8, 40, 70])))).encode()
                if rng.random() < 0.5 and len(b) > 2:
                    i = rng.randrange(len(b))
                    b = b[:i] + bytes([rng.getrandbits(8)]) + b[i + 1:]
            add(ep, kind, "Arbitrary", "0", b)
    return inputs


# ---------------------------------------------------------------------------------------------
def stage(pid, tier, seed):
    """Returns (inputs, model list) for the decision part of a property."""
    if pid == "C16":
        return [{"fn": "fee_cover"}], models.for_property("C16", tier)
    if pid == "C17":
        return watchdog_inputs(tier, seed), models.for_property("C17", tier)
    if pid == "C18":
        return transform_inputs(tier, seed), models.for_property("C18", tier)
    if pid == "C12":
        import decide_blocks
        return decide_blocks.inputs(tier, seed), models.for_property("C12", tier)
    if pid == "C11":
        import decide_headers
        return decide_headers.inputs(tier, seed), models.for_property("C11", tier)
    raise runner.ToolError(f"no decision stage for {pid}")


def run_stage(pid, tier, seed, wd):
    inputs, M = stage(pid, tier, seed)
    mruns = []
    if pid == "C12":
        import decide_blocks
        mruns.append(dict(decide_blocks.LAST_MODEL))
    for m in M:
        r = models.run_model(m, wd)
        mruns.append(r["summary"])
        if not r["ok"]:
            raise runner.ToolError(f"model {m['name']} did not pass: {r['why']}\n{r['tail']}")
    op = run_decide(inputs, wd, name="decide-" + pid)
    recs = runner.load_trace(op)
    res = validate_decisions(op, wd, module="TraceHeaders" if pid == "C11" else "TraceDecision")
    return {"inputs": inputs, "records": recs, "res": res, "model_runs": mruns, "path": op}


def nontrivial(recs):
    s = set()
    for r in recs:
        o = r.get("out", {})
        key = json.dumps([r.get("fn"), r.get("target"), r.get("endpoint"), r.get("cls"), r.get("ep"), r.get("net"),
                          sorted(r.get("heights", [])) if "heights" in r else None, r.get("canister"),
                          o.get("status"), o.get("flag"), o.get("body"), o.get("verdict"), r.get("case"), o.get("time"),
                          (r.get("height", 0) % 2016) if r.get("fn") == "hdr_candidate" else None,
                          r.get("m") if r.get("fn") == "block" else None,
                          json.dumps(o.get("reqBytes"))[:40] if r.get("fn") == "hdr_candidate" else None], sort_keys=True)
        s.add(key)
    return len(s)


def run_check(pid, tier, seed, t0):
    import checks
    wd = runner.workdir(f"check-{pid}-{tier}")
    st = run_stage(pid, tier, seed, wd)
    reps = st["res"]["reports"]
    tool = [r for r in reps if r.get("kind") in ("TLCERROR", "TOOLERROR", "UNCONSUMED")]
    viol = [r for r in reps if r.get("kind") == "MISMATCH"]
    rc = 0
    if tool:
        for r in tool[:3]:
            print("TOOL-ERROR:", json.dumps(r)[:2500])
        rc = 2
    nviol = 0
    for r in viol[:5]:
        nviol += 1
        rec = st["records"][r["l"] - 1] if 0 < r.get("l", 0) <= len(st["records"]) else None
        os.makedirs(os.path.join(VERIF, "replays"), exist_ok=True)
        path = os.path.join(VERIF, "replays", f"{pid}-{seed}-{nviol}.json")
        with open(path, "w") as f:
            # the inputs of a decision check are a function of (property, tier, seed): a replay regenerates and
            # re-executes them (stateful header chains and multi-round watchdog inputs cannot be cut to one record)
            json.dump({"property": pid, "report": r, "record": rec, "tier": tier, "seed": seed}, f)
        print(f"VIOLATION property={pid} replay={path}")
        print("  ", json.dumps(r)[:500])
        print("  ", json.dumps(rec)[:700])
    if viol:
        rc = 1
    ms = st["model_runs"]
    cov = {
        "states": max(1, sum(x.get("distinct", 0) for x in ms)) if ms else max(1, st["res"]["stats"].get("distinct", 1)),
        "transitions": max(1, sum(x.get("generated", 0) for x in ms)) if ms else max(1, st["res"]["stats"].get("generated", 1)),
        "traces_validated_against_impl": len(st["records"]),
        "samples": st["records"][:3] + st["records"][-2:],
        "evaluations": len(st["records"]),
        "distinct_nontrivial": nontrivial(st["records"]),
        "rule": "one evaluation per recorded call of the implementation's decision function, validated by TLC against the "
                "TLA+ operator; distinct = distinct (function, abstract input class, outcome) triples",
        "model_runs": ms,
        "trace_validation": st["res"]["stats"],
        "exhaustive": False,
    }
    checks.write_evidence(pid, tier, seed, "model_checking", cov, time.time() - t0, len(viol))
    return rc
