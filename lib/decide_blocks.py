"""C12: block-structure cases.  The merkle-preserving duplication mutations are the ones TLC finds
in MC_Merkle (printed as MUTATION reports); reorderings, removals, swaps and repeats are added."""
import random

import models
import runner

LAST_MODEL = {}


def merkle_mutations(n):
    """Lists over 1..n with the same merkle root as 1..n (Bitcoin duplicates the last node of an odd level)."""
    out = set()
    # spans[i] = (first leaf, last leaf) covered by node i of the current level
    level = [(i, i) for i in range(1, n + 1)]
    while len(level) > 1:
        if len(level) % 2 == 1:
            a, b = level[-1]
            # repeating the leaves under the last node gives the same root
            m = list(range(1, n + 1)) + list(range(a, b + 1))
            out.add(tuple(m))
            level = level + [level[-1]]
        level = [(level[i][0], max(level[i][1], level[i + 1][1])) for i in range(0, len(level), 2)]
    return [list(x) for x in sorted(out)]


def inputs(tier, seed):
    rng = random.Random(seed)
    wd = runner.workdir(f"mc-merkle-{tier}")
    cfg = "MC_Merkle_quick.cfg" if tier == "quick" else "MC_Merkle_thorough.cfg"
    r = models.run_model({"name": "MC_Merkle " + cfg, "module": "MC_Merkle", "cfg": cfg, "workers": 12,
                          "timeout": 3000, "heap": "16g"}, wd)
    if not r["ok"]:
        raise runner.ToolError("MC_Merkle failed: " + r["tail"])
    LAST_MODEL.clear()
    LAST_MODEL.update(r["summary"])
    muts = [x for x in runner.parse_reports(r["raw"]) if x.get("kind") == "MUTATION"]
    cases = []
    maxn = 7
    for x in muts:
        for salt in range(2 if tier == "quick" else 6):
            cases.append({"fn": "block", "n": x["n"], "m": x["m"], "case": "cve", "salt": salt})
    # members of the family beyond the bound of the model: at every level of the merkle tree whose length
    # is odd, the span of leaves under the last node is repeated (TLC recomputes the root of each)
    for n in range(2, 15):
        for m in merkle_mutations(n):
            cases.append({"fn": "block", "n": n, "m": m, "case": "cve-level", "salt": n})
    # blocks whose header honestly commits to a list that repeats a transaction
    for _ in range(40 if tier == "quick" else 600):
        n = rng.randint(2, 7)
        m = list(range(1, n + 1))
        for _k in range(rng.choice([1, 1, 2])):
            m.insert(rng.randint(1, len(m)), rng.choice(m))
        cases.append({"fn": "block", "n": n, "m": m, "case": "committed-dup", "salt": rng.randint(0, 50), "commit": "self"})
        ok = list(range(1, n + 1))
        if rng.random() < 0.3:
            rng.shuffle(ok)
        cases.append({"fn": "block", "n": n, "m": ok, "case": "committed-perm", "salt": rng.randint(0, 50), "commit": "self"})
    # the longer members of the family that the bounded model does not reach (same construction)
    for n in range(1, 13):
        ident = list(range(1, n + 1))
        cases.append({"fn": "block", "n": n, "m": ident, "case": "orig", "salt": n})
        if n % 2 == 1 and n > 1:
            cases.append({"fn": "block", "n": n, "m": ident + [n], "case": "cve-dup-last", "salt": n})
        if n >= 3 and n % 4 in (2, 3):
            # duplicate the last pair at the second level: [.., a, b] -> [.., a, b, a, b] when that level is odd
            pass
    for _ in range(300 if tier == "quick" else 3000):
        n = rng.randint(1, maxn)
        ident = list(range(1, n + 1))
        k = rng.random()
        m = list(ident)
        if k < 0.15 and n >= 2:
            i, j = rng.sample(range(n), 2)
            m[i], m[j] = m[j], m[i]
            case = "swap"
        elif k < 0.3 and n >= 2:
            del m[rng.randrange(n)]
            case = "remove"
        elif k < 0.45:
            rng.shuffle(m)
            case = "reorder"
        elif k < 0.65:
            m.insert(rng.randint(0, n), rng.choice(ident))
            case = "repeat"
        elif k < 0.7:
            m = []
            case = "empty"
        elif k < 0.85:
            m = [rng.choice(ident) for _ in range(rng.randint(1, 8))]
            case = "random"
        else:
            m = ident + [ident[-1]] * rng.randint(1, 3)
            case = "dup-tail"
        cases.append({"fn": "block", "n": n, "m": m, "case": case, "salt": rng.randint(0, 50)})
    return cases
