"""C12: block-structure cases.  The merkle-preserving duplication mutations are the ones TLC finds
in MC_Merkle (printed as MUTATION reports); reorderings, removals, swaps and repeats are added."""
import random

import models
import runner

LAST_MODEL = {}


def _root(m):
    level = [("leaf", x) for x in m]
    while len(level) > 1:
        if len(level) % 2 == 1:
            level = level + [level[-1]]
        level = [("node", level[i], level[i + 1]) for i in range(0, len(level), 2)]
    return level[0]


def _level_dups(m):
    """Repeat the leaves under the last node of every odd level of m's merkle tree."""
    out = []
    level = [(i, i) for i in range(len(m))]
    while len(level) > 1:
        if len(level) % 2 == 1:
            a, b = level[-1]
            out.append(list(m) + list(m[a:b + 1]))
            level = level + [level[-1]]
        level = [(level[i][0], max(level[i][1], level[i + 1][1])) for i in range(0, len(level), 2)]
    return out


def merkle_mutations(n, max_len=None):
    """Lists over 1..n, different from 1..n, with the same merkle root (Bitcoin duplicates the last node of
    an odd level): the closure of 1..n under repeating the span of the last node of an odd level, padding an
    odd list with its last element and dropping one of two equal trailing elements.  Every member is
    re-checked against the root of 1..n on the free-constructor abstraction."""
    ident = list(range(1, n + 1))
    max_len = max_len or 2 * n + 2
    want = _root(ident)
    seen = {tuple(ident)}
    todo = [ident]
    while todo:
        m = todo.pop()
        cands = _level_dups(m)
        if len(m) % 2 == 1:
            cands.append(m + [m[-1]])
        if len(m) >= 2 and m[-1] == m[-2]:
            cands.append(m[:-1])
        for c in cands:
            if len(c) <= max_len and tuple(c) not in seen and _root(c) == want:
                seen.add(tuple(c))
                todo.append(c)
    seen.discard(tuple(ident))
    return [list(x) for x in sorted(seen)]


def inputs(tier, seed):
    rng = random.Random(seed)
    wd = runner.workdir(f"mc-merkle-{tier}")
    cfg = "MC_Merkle_quick.cfg" if tier == "quick" else "MC_Merkle_thorough.cfg"
    r = models.run_model({"name": "MC_Merkle " + cfg, "module": "MC_Merkle", "cfg": cfg, "workers": 12,
                          "timeout": 3000, "heap": "16g"}, wd)
    if not r["ok"]:
        raise runner.ToolError("MC_Merkle failed: " + r["tail"])
    LAST_MODEL.clear()
    LAST_MODEL.update(r["summary"])
    muts = [x for x in runner.parse_reports(r["raw"]) if x.get("kind") == "MUTATION"]
    cases = []
    maxn = 7
    for x in muts:
        for salt in range(2 if tier == "quick" else 6):
            cases.append({"fn": "block", "n": x["n"], "m": x["m"], "case": "cve", "salt": salt})
    # members of the family beyond the bound of the model: at every level of the merkle tree whose length
    # is odd, the span of leaves under the last node is repeated (TLC recomputes the root of each)
    for n in range(2, 15):
        for m in merkle_mutations(n):
            cases.append({"fn": "block", "n": n, "m": m, "case": "cve-level", "salt": n})
    # blocks whose header honestly commits to a list that repeats a transaction
    for _ in range(40 if tier == "quick" else 600):
        n = rng.randint(2, 7)
        m = list(range(1, n + 1))
        for _k in range(rng.choice([1, 1, 2])):
            m.insert(rng.randint(1, len(m)), rng.choice(m))
        cases.append({"fn": "block", "n": n, "m": m, "case": "committed-dup", "salt": rng.randint(0, 50), "commit": "self"})
        ok = list(range(1, n + 1))
        if rng.random() < 0.3:
            rng.shuffle(ok)
        cases.append({"fn": "block", "n": n, "m": ok, "case": "committed-perm", "salt": rng.randint(0, 50), "commit": "self"})
    # the longer members of the family that the bounded model does not reach (same construction)
    for n in range(1, 13):
        ident = list(range(1, n + 1))
        cases.append({"fn": "block", "n": n, "m": ident, "case": "orig", "salt": n})
        if n % 2 == 1 and n > 1:
            cases.append({"fn": "block", "n": n, "m": ident + [n], "case": "cve-dup-last", "salt": n})
        if n >= 3 and n % 4 in (2, 3):
            # duplicate the last pair at the second level: [.., a, b] -> [.., a, b, a, b] when that level is odd
            pass
    for _ in range(300 if tier == "quick" else 3000):
        n = rng.randint(1, maxn)
        ident = list(range(1, n + 1))
        k = rng.random()
        m = list(ident)
        if k < 0.15 and n >= 2:
            i, j = rng.sample(range(n), 2)
            m[i], m[j] = m[j], m[i]
            case = "swap"
        elif k < 0.3 and n >= 2:
            del m[rng.randrange(n)]
            case = "remove"
        elif k < 0.45:
            rng.shuffle(m)
            case = "reorder"
        elif k < 0.65:
            m.insert(rng.randint(0, n), rng.choice(ident))
            case = "repeat"
        elif k < 0.7:
            m = []
            case = "empty"
        elif k < 0.85:
            m = [rng.choice(ident) for _ in range(rng.randint(1, 8))]
            case = "random"
        else:
            m = ident + [ident[-1]] * rng.randint(1, 3)
            case = "dup-tail"
        cases.append({"fn": "block", "n": n, "m": m, "case": case, "salt": rng.randint(0, 50)})
    # the same lists with the repeated occurrences differing from the first one in their witness only (stripped,
    # or replaced): same transaction id, same merkle root, different wtxid - still a repeated transaction
    fam = ("cve", "cve-level", "cve-dup-last", "committed-dup", "dup-tail", "repeat")
    wits = [dict(c, wit=("strip" if i % 2 else "alter"), case=c["case"] + "-wit")
            for i, c in enumerate(cases) if c["case"] in fam and len(set(c["m"])) < len(c["m"])]
    if tier == "quick" and len(wits) > 500:
        wits = rng.sample(wits, 500)
    return cases + wits
