"""Scenario generation for the bitcoin-canister harness.

A scenario is a dict {name, config, addrs, txs, blocks, cmds} (see harness/src/exec.rs).
The generator keeps its own tiny abstract ledger only to produce transaction-valid blocks
(the domain of the properties); it never predicts what the canister answers -- that is the
job of the TLA+ specification during trace validation.
"""
import random

ADDR_KINDS = ["p2pkh", "p2sh", "p2wpkh", "p2wsh", "p2tr"]
NOADDR_FLAVOURS = ["p2pk", "nonstd26", "nonstd201", "nonstd202", "nonstd300"]
BLOCK_DEFECTS = ["truncated", "garbage", "empty", "badpow", "badmerkle", "duptx", "nocoinbase", "notx", "badbits"]
HEADER_DEFECTS = ["short", "empty", "garbage80", "badpow", "badbits"]


class World:
    """Abstract universe under construction."""

    def __init__(self, rng, net="regtest", naddr=4, prefix_pair=True, diffs=(1,), values=(0, 5, 50, 700, 1000)):
        self.rng = rng
        self.net = net
        self.addrs = []
        kinds = list(ADDR_KINDS)
        rng.shuffle(kinds)
        i = 1
        if prefix_pair:
            self.addrs.append({"id": 1, "kind": "p2wpkh"})
            self.addrs.append({"id": 2, "kind": "prefix_of", "of": 1})
            i = 3
        while i <= naddr:
            self.addrs.append({"id": i, "kind": kinds[(i - 1) % len(kinds)]})
            i += 1
        self.naddr = len(self.addrs)
        self.diffs = diffs
        self.values = values
        # block id -> dict(parent, height, time, txs, ledger{(t,j):(a,v)})
        self.blocks = {1: {"id": 1, "parent": 0, "height": 0, "time": 0, "txs": [1], "diff": 1,
                           "ledger": {(1, 1): (0, 0)}}}
        self.txs = {1: {"id": 1, "ins": [], "outs": [{"a": 0, "v": 0}]}}
        self.block_list = []   # specs in creation order (without genesis)
        self.tx_list = []

    # ------------------------------------------------------------------ helpers
    def new_tx(self, ins, outs, w=False):
        tid = len(self.txs) + 1
        tx = {"id": tid, "ins": [list(x) for x in ins], "outs": outs, "w": bool(w)}
        self.txs[tid] = tx
        self.tx_list.append(tx)
        return tid

    def rand_out(self, value=None, addr_bias=0.8):
        r = self.rng
        v = r.choice(self.values) if value is None else value
        x = r.random()
        if x < addr_bias:
            return {"a": r.randint(1, self.naddr), "v": v}
        if x < addr_bias + 0.07:
            return {"a": -1, "v": 0}
        return {"a": 0, "v": v, "s": r.choice(NOADDR_FLAVOURS)}

    def mtp(self, bid):
        ts = []
        b = bid
        while b != 0 and len(ts) < 11:
            ts.append(self.blocks[b]["time"])
            b = self.blocks[b]["parent"]
        ts.sort()
        return ts[len(ts) // 2]

    def apply(self, ledger, tid):
        tx = self.txs[tid]
        for (t, j) in [tuple(x) for x in tx["ins"]]:
            del ledger[(t, j)]
        for j, o in enumerate(tx["outs"], start=1):
            if o["a"] != -1:
                ledger[(tid, j)] = (o["a"], o["v"])

    def tx_applicable(self, ledger, tid):
        tx = self.txs[tid]
        ins = [tuple(x) for x in tx["ins"]]
        return len(ins) > 0 and all(i in ledger for i in ins) and len(set(ins)) == len(ins)

    def mine(self, parent, ntx=None, time=None, diff=None, reuse_pool=None, coinbase_out=None):
        """Adds a transaction-valid block on top of `parent`; returns its id."""
        r = self.rng
        p = self.blocks[parent]
        ledger = dict(p["ledger"])
        bid = len(self.blocks) + 1
        outs = [coinbase_out] if coinbase_out else [self.rand_out() for _ in range(r.choice([1, 1, 1, 2, 3]))]
        cb = self.new_tx([], outs)
        txs = [cb]
        self.apply(ledger, cb)
        if ntx is None:
            ntx = r.choice([0, 0, 1, 1, 2, 3])
        for _ in range(ntx):
            # the same transaction mined again on another fork
            if reuse_pool and r.random() < 0.5:
                cands = [t for t in reuse_pool if t not in txs and self.tx_applicable(ledger, t)]
                if cands:
                    t = r.choice(cands)
                    txs.append(t)
                    self.apply(ledger, t)
                    continue
            spendable = [o for o in ledger if o != (1, 1)]
            if not spendable:
                break
            k = min(len(spendable), r.choice([1, 1, 2, 3]))
            ins = r.sample(spendable, k)
            total = sum(ledger[i][1] for i in ins)
            nout = r.choice([1, 1, 2, 3])
            outs = []
            left = total
            fee = r.choice([0, 0, 1, 2, 7, 20]) if total > 0 else 0
            fee = min(fee, left)
            left -= fee
            for q in range(nout):
                v = left if q == nout - 1 else r.randint(0, left)
                left -= v
                o = self.rand_out(value=v)
                if o["a"] == -1:
                    o = {"a": -1, "v": 0}
                    left += v
                outs.append(o)
            t = self.new_tx(ins, outs, w=r.random() < 0.4)
            txs.append(t)
            self.apply(ledger, t)
        if time is None:
            # timestamps need not grow along a chain: anything above the median of the last 11 is valid
            time = p["time"] + r.choice([600, 600, 600, 1, 30, 1300, -1, -700, -1500, -3100])
            time = max(time, self.mtp(parent) + 1)
        if diff is None:
            diff = r.choice(self.diffs)
        blk = {"id": bid, "parent": parent, "height": p["height"] + 1, "time": time, "txs": txs,
               "diff": diff, "ledger": ledger}
        self.blocks[bid] = blk
        self.block_list.append({"id": bid, "parent": parent, "diff": diff, "time": time, "txs": txs})
        return bid

    def noncoinbase_txs_of(self, bid):
        return [t for t in self.blocks[bid]["txs"] if self.txs[t]["ins"]]

    def scenario(self, name, config, cmds):
        cfg = dict(config)
        cfg.setdefault("net", self.net)
        return {"name": name, "config": cfg, "addrs": self.addrs, "txs": self.tx_list,
                "blocks": self.block_list, "cmds": cmds}


def item(b, cls="valid"):
    return {"b": b, "as": cls}


def complete(blocks, nxt=()):
    return {"k": "complete", "blocks": [x if isinstance(x, dict) else item(x) for x in blocks],
            "next": [x if isinstance(x, dict) else item(x) for x in nxt]}


def q(ep, **kw):
    d = {"c": "q", "ep": ep}
    d.update(kw)
    return d


def probes(rng, w, max_height, naddr, heavy=False, mode=None):
    """A battery of queries for the current moment."""
    out = [q("info")]
    addrs = list(range(1, naddr + 1))
    if not heavy:
        addrs = rng.sample(addrs, min(len(addrs), 2))
    for a in addrs:
        mcs = [-1, 0, 1, 2, 3, 4, 7] if heavy else [-1] + rng.sample([0, 1, 2, 3, 4, 6], 2)
        for mc in mcs:
            m = mode or rng.choice(["update", "query"])
            lim = rng.choice([0, 0, 1, 2, 3])
            out.append(q("utxos", addr=a, mc=mc, mode=m, limit=lim))
            out.append(q("balance", addr=a, mc=mc, mode=rng.choice(["update", "query"])))
    # other spellings of the same address (upper-case bech32 is the same address; mixed case, a broken checksum
    # and surrounding blanks are malformed): deterministic, no draw from the generator's stream
    a0 = addrs[0]
    for sp in ("upper", "mixed", "badsum", "space"):
        out.append(q("utxos", addr={"id": a0, "sp": sp}, mc=-1, mode="query" if sp == "mixed" else "update", limit=0))
        out.append(q("balance", addr={"id": a0, "sp": sp}, mc=1 if sp == "upper" else -1, mode="update"))
    H = max_height + 2
    ranges = [(0, -1)]
    for _ in range(4 if heavy else 2):
        s = rng.randint(0, H)
        e = rng.choice([-1, rng.randint(0, H)])
        ranges.append((s, e))
    for (s, e) in ranges:
        out.append(q("headers", s=s, e=e))
    if rng.random() < (1.0 if heavy else 0.4):
        out.append(q("fees"))
    return out


def random_history(seed, net="regtest", nblocks=14, thr=None, full=True, diffs=None, slicing=True,
                   upgrades=True, defects=True, heavy_probes=False, name=None, lazy=None, gate=None):
    """A random fork tree delivered through heartbeats (full mode, regtest) or pushed directly."""
    rng = random.Random(seed)
    if full is None:
        full = (net == "regtest")
    if diffs is None:
        diffs = rng.choice([(1,), (1,), (1, 2), (1, 2, 3), (1, 2, 3, 5, 8)])
    w = World(rng, net=net, naddr=rng.choice([3, 4, 5]), diffs=diffs)
    thr = thr if thr is not None else rng.choice([1, 1, 2, 2, 3, 4])
    cfg = {"net": net, "thr": thr, "seed": seed,
           "lazy": rng.random() < 0.3 if lazy is None else lazy,
           "gate": rng.random() < 0.7 if gate is None else gate,
           "burn": rng.random() < 0.3}
    cmds = [{"c": "tick", "dt": 100000}]
    delivered = {1}
    undelivered = []
    tips_recent = [1]
    max_h = 0
    pending_hdrs = []
    for step in range(nblocks):
        # choose a parent: mostly the most recent block, sometimes an older one (fork)
        x = rng.random()
        if x < 0.62:
            parent = tips_recent[-1]
        elif x < 0.9:
            parent = rng.choice(tips_recent[-4:])
        else:
            parent = rng.choice(list(w.blocks.keys()))
        pool = []
        for b in tips_recent[-6:]:
            pool += w.noncoinbase_txs_of(b)
        bid = w.mine(parent, reuse_pool=pool)
        tips_recent.append(bid)
        max_h = max(max_h, w.blocks[bid]["height"])
        undelivered.append(bid)
        # deliver with some delay so that responses carry several blocks and announced headers
        if rng.random() < 0.7:
            k = rng.randint(1, len(undelivered))
            batch = undelivered[:k]
            undelivered = undelivered[k:]
            if full:
                items = []
                for b in batch:
                    items.append(item(b))
                    if defects and rng.random() < 0.08:
                        items.append(item(rng.choice(batch), rng.choice(BLOCK_DEFECTS)))
                    if defects and rng.random() < 0.05:
                        items.append(item(rng.choice(list(w.blocks.keys()))))      # duplicate / stale
                    if defects and rng.random() < 0.05:
                        # a block that is sound except for its timestamp: not above the median of the last 11
                        par = rng.choice(batch)
                        old = w.mine(par, ntx=0, time=w.mtp(par) - rng.choice([0, 0, 1, 77]))
                        items.append(item(old))
                if defects and rng.random() < 0.06:
                    rng.shuffle(items)
                nxt = [item(b) for b in undelivered[:3]]
                if defects and nxt and rng.random() < 0.2:
                    nxt.insert(rng.randint(0, len(nxt)), item(rng.choice(list(w.blocks.keys())), rng.choice(HEADER_DEFECTS + ["valid", "long"])))
                y = rng.random()
                if y < 0.12 and len(batch) == 1:
                    off = {"k": "partial", "item": item(batch[0]), "pages": rng.choice([0, 1, 2, 3, 5]), "next": nxt}
                    if off["pages"] and rng.random() < 0.5:
                        # arbitrary split points: coinciding cuts, cuts at the very start or end = empty pages
                        off["cuts"] = sorted(rng.choice([0, 0, 1, 40, 80, 80, 81, 150, 1000000, 1000000]) for _ in range(off["pages"]))
                    cmds.append({"c": "offer", "initial": off})
                elif y < 0.18:
                    cmds.append({"c": "offer", "initial": {"k": "reject"}})
                    cmds.append({"c": "offer", "initial": complete(items, nxt)})
                else:
                    cmds.append({"c": "offer", "initial": complete(items, nxt)})
                nh = rng.randint(2, 5)
                for _ in range(nh):
                    hb = {"c": "hb"}
                    if slicing and rng.random() < 0.35:
                        hb["budget"] = rng.randint(1, 4)
                    if rng.random() < 0.07:
                        hb["followup"] = "reject"
                    cmds.append(hb)
                    if rng.random() < 0.5:
                        cmds += probes(rng, w, max_h, w.naddr, heavy=heavy_probes)
            else:
                for b in batch:
                    cmds.append({"c": "push", "b": b})
                    if rng.random() < 0.5:
                        # the canister never inserts blocks while an ingestion is paused: drain it
                        if slicing and rng.random() < 0.4:
                            for _ in range(rng.randint(1, 3)):
                                cmds.append({"c": "ingest", "budget": rng.randint(1, 4)})
                                if rng.random() < 0.5:
                                    cmds += probes(rng, w, max_h, w.naddr, heavy=heavy_probes)
                        cmds.append({"c": "ingest", "budget": 0})
                    if rng.random() < 0.5:
                        cmds += probes(rng, w, max_h, w.naddr, heavy=heavy_probes)
            delivered.update(batch)
        if upgrades and rng.random() < 0.1:
            cmds.append({"c": "upgrade", "d": rng.choice([{}, {}, {"thr": rng.choice([1, 2, 3])}, {"lazy": rng.random() < 0.5}, {"burn": rng.random() < 0.5}])})
            cmds += probes(rng, w, max_h, w.naddr, heavy=heavy_probes)
        if rng.random() < 0.08:
            cmds.append({"c": "set_config", "d": rng.choice([{"thr": rng.choice([1, 2, 3, 4])}, {"gate": rng.random() < 0.5},
                                                            {"api": rng.random() < 0.8}, {"syncing": rng.random() < 0.8},
                                                            {"lazy": rng.random() < 0.5}, {"burn": rng.random() < 0.5}])})
        if rng.random() < 0.1:
            cmds.append({"c": "tick", "dt": rng.choice([1, 600, 7200])})
    # drain
    if full:
        if undelivered:
            cmds.append({"c": "offer", "initial": complete(undelivered)})
        cmds.append({"c": "set_config", "d": {"api": True, "syncing": True}})
        for _ in range(6):
            cmds.append({"c": "hb"})
    else:
        for b in undelivered:
            cmds.append({"c": "push", "b": b})
        cmds.append({"c": "set_config", "d": {"api": True}})
        for _ in range(3):
            cmds.append({"c": "ingest", "budget": 0})
    cmds += probes(rng, w, max_h, w.naddr, heavy=True)
    return w.scenario(name or f"random-{net}-{seed}", cfg, cmds)
