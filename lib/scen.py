"""Directed scenarios and specialised random profiles."""
import random

import gen
from gen import World, complete, item, q, probes


def _all_queries(naddr, maxmc=4, maxh=6, fees=True, limit=0):
    out = [q("info")]
    for a in range(1, naddr + 1):
        for mc in [-1] + list(range(0, maxmc + 1)):
            out.append(q("utxos", addr=a, mc=mc, limit=limit))
            out.append(q("balance", addr=a, mc=mc))
    for s in range(0, maxh + 1):
        out.append(q("headers", s=s, e=-1))
        for e in range(s, maxh + 1):
            out.append(q("headers", s=s, e=e))
    if fees:
        out.append(q("fees"))
    out.append(q("config"))
    return out


def _w(seed=1, net="regtest", naddr=3, prefix=False, diffs=(1,)):
    return World(random.Random(seed), net=net, naddr=naddr, prefix_pair=prefix, diffs=diffs)


def cb(a, v):
    return {"a": a, "v": v}


def shared_tx_height():
    """The same transaction mined on two forks at different heights (C01)."""
    w = _w(11)
    b1 = w.mine(1, ntx=0, coinbase_out=cb(1, 1000))
    t = w.new_tx([(w.blocks[b1]["txs"][0], 1)], [cb(2, 900)])
    # fork a: T at height 2
    a2 = w.mine(b1, ntx=0, coinbase_out=cb(3, 5))
    w.blocks[a2]["txs"].append(t)          # (the same list object as in block_list)
    # fork c: T at height 3
    c2 = w.mine(b1, ntx=0, coinbase_out=cb(3, 5))
    c3 = w.mine(c2, ntx=0, coinbase_out=cb(3, 5))
    w.blocks[c3]["txs"].append(t)
    cmds = [{"c": "tick", "dt": 100000}, {"c": "offer", "initial": complete([b1, a2, c2, c3])}, {"c": "hb"}, {"c": "hb"}]
    cmds += _all_queries(3, maxmc=3, maxh=4)
    return w.scenario("directed-shared-tx-height", {"thr": 10, "seed": 11}, cmds)


def prefix_pair(net="regtest"):
    """An output paying an address whose text starts with the queried address (C01, C05)."""
    w = World(random.Random(12), net=net, naddr=3, prefix_pair=True)
    b1 = w.mine(1, ntx=0, coinbase_out=cb(2, 777))        # pays the longer address only
    b2 = w.mine(b1, ntx=0, coinbase_out=cb(1, 11))
    b3 = w.mine(b2, ntx=0, coinbase_out=cb(3, 5))
    b4 = w.mine(b3, ntx=0, coinbase_out=cb(2, 9))
    cmds = [{"c": "tick", "dt": 100000}]
    if net == "regtest":
        cmds += [{"c": "offer", "initial": complete([b1, b2, b3, b4])}] + [{"c": "hb"}] * 6
    else:
        for b in (b1, b2, b3, b4):
            cmds += [{"c": "push", "b": b}, {"c": "ingest"}]
    cmds += _all_queries(3, maxmc=3, maxh=5) + _all_queries(3, maxmc=1, maxh=0, limit=1)
    return w.scenario(f"directed-prefix-pair-{net}", {"thr": 1, "seed": 12}, cmds)


def balance_fork():
    """Balance and UTXOs with min_confirmations on a forked tree (C05, C04)."""
    w = _w(13)
    b1 = w.mine(1, ntx=0, coinbase_out=cb(1, 1000))
    b2 = w.mine(b1, ntx=0, coinbase_out=cb(2, 50))
    c1 = w.mine(1, ntx=0, coinbase_out=cb(1, 30))
    cmds = [{"c": "tick", "dt": 100000}, {"c": "offer", "initial": complete([b1, b2, c1])}, {"c": "hb"}, {"c": "hb"}]
    cmds += _all_queries(3, maxmc=4, maxh=3)
    return w.scenario("directed-balance-fork", {"thr": 10, "seed": 13}, cmds)


def heavy_short_vs_light_long(net="regtest"):
    """A heavy short branch against a light long branch (C02; negative stability count)."""
    w = _w(14, net=net)
    h1 = w.mine(1, ntx=0, coinbase_out=cb(1, 1000), diff=10)
    l1 = w.mine(1, ntx=0, coinbase_out=cb(2, 7), diff=1)
    l2 = w.mine(l1, ntx=0, coinbase_out=cb(2, 8), diff=1)
    cmds = [{"c": "tick", "dt": 100000}]
    if net == "regtest":
        cmds += [{"c": "offer", "initial": complete([h1, l1, l2])}, {"c": "hb"}, {"c": "hb"}]
    else:
        cmds += [{"c": "push", "b": b} for b in (h1, l1, l2)]
    cmds += _all_queries(3, maxmc=3, maxh=3) + _all_queries(2, maxmc=0, maxh=0, limit=1)
    return w.scenario(f"directed-heavy-short-{net}", {"thr": 50, "seed": 14}, cmds)


def paused_ingestion(budgets=(1, 1, 1, 1, 1, 1, 1, 1)):
    """Queries at every pause point of a sliced ingestion (C07, C08, C05)."""
    w = _w(15)
    b1 = w.mine(1, ntx=0, coinbase_out=cb(1, 1000))
    t0 = w.blocks[b1]["txs"][0]
    b2 = w.mine(b1, ntx=0, coinbase_out=cb(2, 500))
    t1 = w.new_tx([(t0, 1)], [cb(2, 300), cb(3, 650), {"a": -1, "v": 0}, {"a": 0, "v": 40, "s": "nonstd300"}], w=True)
    t2 = w.new_tx([(t1, 1), (w.blocks[b2]["txs"][0], 1)], [cb(1, 790)])
    for t in (t1, t2):
        w.blocks[b2]["txs"].append(t)
    b3 = w.mine(b2, ntx=0, coinbase_out=cb(3, 9))
    b4 = w.mine(b3, ntx=0, coinbase_out=cb(1, 1))
    cmds = [{"c": "tick", "dt": 100000}, {"c": "offer", "initial": complete([b1, b2, b3, b4])}, {"c": "hb"}, {"c": "hb"}]
    qs = _all_queries(3, maxmc=3, maxh=5)
    cmds += qs
    for bd in budgets:
        cmds.append({"c": "hb", "budget": bd})
        cmds += qs
    cmds += [{"c": "hb"}] * 3 + qs
    return w.scenario("directed-paused-ingestion", {"thr": 1, "seed": 15}, cmds)


def partial_split_points():
    """Paginated replies with every kind of split: coinciding cuts, cuts at the very start and end (empty
    pages), 1-byte pages, many pages (C13: split points and page counts are arbitrary)."""
    w = _w(18)
    chain = [1]
    for i in range(7):
        chain.append(w.mine(chain[-1], ntx=1 if i else 0, coinbase_out=cb(1, 1000 + i)))
    cmds = [{"c": "tick", "dt": 100000}]
    splits = [[40, 80, 80], [0, 50, 1000000], [1000000], [0], [0, 0, 0, 0], [1, 2, 3, 4, 5, 6], [80] * 9 + [1000000] * 3]
    for b, cuts in zip(chain[1:], splits):
        cmds.append({"c": "offer", "initial": {"k": "partial", "item": item(b), "pages": len(cuts), "cuts": cuts, "next": []}})
        cmds += [{"c": "hb"}] * (len(cuts) + 3)
        cmds += [q("info"), q("balance", addr=1, mc=0)]
    return w.scenario("directed-partial-split-points", {"thr": 3, "seed": 18}, cmds)


def gate_heavy_short():
    """The sync gate is measured against the BEST chain (most work), not the longest branch: a heavy
    one-block branch against a light three-block branch, with a header announced for height 4 (C14)."""
    w = _w(19, diffs=(1,))
    x1 = w.mine(1, ntx=0, coinbase_out=cb(1, 1000), diff=5)
    y = [1]
    for i in range(4):
        y.append(w.mine(y[-1], ntx=0, coinbase_out=cb(2, 10 + i), diff=1))
    probe = gate_queries(random.Random(19), 2, "regtest") + [q("utxos", addr=1, mc=-1), q("balance", addr=2, mc=0), q("headers", s=0, e=-1), q("fees")]
    cmds = [{"c": "tick", "dt": 100000}]
    cmds += [{"c": "offer", "initial": complete([x1, y[1]], [])}, {"c": "hb"}, {"c": "hb"}] + probe
    cmds += [{"c": "offer", "initial": complete([y[2]], [y[3]])}, {"c": "hb"}, {"c": "hb"}] + probe      # announced height 3 = best 1 + 2: synced
    cmds += [{"c": "offer", "initial": complete([y[3]], [y[4]])}, {"c": "hb"}, {"c": "hb"}] + probe      # announced height 4 > best 1 + 2: not synced
    cmds += [{"c": "set_config", "d": {"gate": False}}] + probe + [{"c": "set_config", "d": {"gate": True}}] + probe
    cmds += [{"c": "offer", "initial": complete([y[4]], [])}, {"c": "hb"}, {"c": "hb"}] + probe          # header consumed: synced again
    return w.scenario("directed-gate-heavy-short", {"thr": 50, "seed": 19, "gate": True}, cmds)


def upgrade_points():
    """Upgrades at every phase: response stored, partial pages received, ingestion paused (C09)."""
    w = _w(16)
    b1 = w.mine(1, ntx=0, coinbase_out=cb(1, 1000))
    b2 = w.mine(b1, ntx=1)
    b3 = w.mine(b2, ntx=1)
    b4 = w.mine(b3, ntx=1)
    qs = _all_queries(3, maxmc=2, maxh=4)
    cmds = [{"c": "tick", "dt": 100000}]
    cmds += [{"c": "offer", "initial": complete([b1, b2], [b3])}, {"c": "hb"}] + qs + [{"c": "upgrade", "d": {}}] + qs
    cmds += [{"c": "offer", "initial": complete([b1, b2], [b3])}, {"c": "hb"}, {"c": "hb"}] + qs + [{"c": "upgrade", "d": {"thr": 1}}] + qs
    cmds += [{"c": "offer", "initial": {"k": "partial", "item": item(b3), "pages": 2, "next": [item(b4)]}}, {"c": "hb"}, {"c": "hb"}]
    cmds += qs + [{"c": "upgrade", "d": {}}] + qs
    cmds += [{"c": "offer", "initial": complete([b3, b4])}, {"c": "hb"}, {"c": "hb"}, {"c": "hb", "budget": 1}] + qs
    cmds += [{"c": "upgrade", "d": {"lazy": True}}] + qs + [{"c": "hb", "budget": 1}] + qs + [{"c": "hb"}] * 4 + qs
    # every configuration flag away from its default, then upgrades without / with an unrelated argument:
    # nothing may fall back to a default
    cmds += [{"c": "set_config", "d": {"syncing": False, "api": False, "gate": False, "lazy": True, "burn": True, "thr": 7,
                                       "fees": {"ub": 3, "ur": 2, "um": 50, "bal": 4, "balm": 9, "pct": 1, "pctm": 2, "hb": 5, "hr": 1, "hm": 60, "sb": 7, "sp": 2}}},
             q("config"), {"c": "upgrade", "d": {}}, q("config"), {"c": "hb"}, {"c": "hb"}, q("config"),
             {"c": "upgrade", "d": {"thr": 6}}, q("config"), {"c": "hb"}, q("info"),
             {"c": "set_config", "d": {"syncing": True, "api": True}}, {"c": "upgrade", "d": {}}, q("config"), {"c": "hb"}, {"c": "hb"}] + qs
    return w.scenario("directed-upgrade-points", {"thr": 2, "seed": 16}, cmds)


def threshold_raise_while_paused():
    """set_config raises the stability threshold while the anchor's ingestion is paused."""
    w = _w(17)
    b1 = w.mine(1, ntx=0, coinbase_out=cb(1, 1000))
    b2 = w.mine(b1, ntx=0, coinbase_out=cb(1, 10))
    b3 = w.mine(b2, ntx=0, coinbase_out=cb(1, 10))
    t0 = w.blocks[b1]["txs"][0]
    t1 = w.new_tx([(t0, 1)], [cb(2, 300), cb(3, 650)])
    w.blocks[b2]["txs"].append(t1)
    cmds = [{"c": "tick", "dt": 100000}, {"c": "offer", "initial": complete([b1, b2, b3])}, {"c": "hb"}, {"c": "hb"}]
    cmds += [{"c": "hb", "budget": 1}, {"c": "set_config", "d": {"thr": 5}}, {"c": "hb"}, {"c": "hb"}, q("info")]
    return w.scenario("directed-threshold-raise-while-paused", {"thr": 1, "seed": 17}, cmds)


def shared_spend_discard(order=0):
    """Outputs spent on two forks (by the same transaction and by two different ones); one fork is discarded
    while the other stays in the tree (kept unstable by a further fork below it), then that one stabilises too
    (C20, C01, C05)."""
    w = _w(21 + order)
    b1 = w.mine(1, ntx=0, coinbase_out=cb(1, 1000))
    b2 = w.mine(b1, ntx=0, coinbase_out=cb(1, 400))
    o1 = (w.blocks[b1]["txs"][0], 1)
    o2 = (w.blocks[b2]["txs"][0], 1)
    t_same = w.new_tx([o1], [cb(2, 900), cb(1, 50)])          # mined on both forks
    t_a = w.new_tx([o2], [cb(2, 300)])                        # fork a spends o2 one way
    t_c = w.new_tx([o2], [cb(3, 100), cb(1, 200)])            # fork c another way
    a3 = w.mine(b2, ntx=0, coinbase_out=cb(3, 5))
    w.blocks[a3]["txs"] += [t_same, t_a]
    c3 = w.mine(b2, ntx=0, coinbase_out=cb(3, 6))
    w.blocks[c3]["txs"] += [t_same, t_c]
    t_a2 = w.new_tx([(t_same, 1)], [cb(1, 900)])              # the shared transaction's output spent below a3 ...
    t_d = w.new_tx([(t_same, 1), (t_a, 1)], [cb(3, 1100)])    # ... in two ways
    a4 = w.mine(a3, ntx=0, coinbase_out=cb(3, 5))
    w.blocks[a4]["txs"].append(t_a2)
    d4 = w.mine(a3, ntx=0, coinbase_out=cb(2, 7))
    w.blocks[d4]["txs"].append(t_d)
    d5 = w.mine(d4, ntx=0, coinbase_out=cb(2, 8))
    tail = [a4]
    for _ in range(5):
        tail.append(w.mine(tail[-1], ntx=0, coinbase_out=cb(3, 5)))
    first = [b1, b2, a3, c3, a4, d4, d5] if order == 0 else [b1, b2, c3, a3, d4, a4, d5]
    cmds = [{"c": "tick", "dt": 100000}]
    probe = [q("info"), q("fees")] + [x for a in (1, 2, 3) for x in (q("utxos", addr=a, mc=-1), q("balance", addr=a, mc=0),
                                                                    q("balance", addr=a, mc=1), q("utxos", addr=a, mc=2))]
    for b in first:
        cmds += [{"c": "offer", "initial": complete([b])}, {"c": "hb"}, {"c": "hb"}] + probe
    for b in tail[1:]:
        cmds += [{"c": "offer", "initial": complete([b])}, {"c": "hb"}, {"c": "hb"}, {"c": "hb"}] + probe
        if order == 1 and b == tail[2]:
            cmds += [{"c": "upgrade", "d": {}}] + probe
    return w.scenario(f"directed-shared-spend-discard-{order}", {"thr": 2, "seed": 21 + order}, cmds)


def multi_fork_discard():
    """An anchor with three children, one of the losing forks forked again: all of it is discarded in one pop
    (C20: nothing of a discarded fork stays behind)."""
    w = _w(23)
    a = _plain_chain(w, 1, 5, 1)
    b1 = w.mine(1, ntx=0, coinbase_out=cb(2, 7))
    c1 = w.mine(1, ntx=0, coinbase_out=cb(2, 8))
    c2 = w.mine(c1, ntx=0, coinbase_out=cb(2, 9))
    c2x = w.mine(c1, ntx=0, coinbase_out=cb(3, 9))
    c3 = w.mine(c2x, ntx=0, coinbase_out=cb(3, 10))
    d2 = w.mine(a[0], ntx=0, coinbase_out=cb(3, 11))
    d2x = w.mine(a[0], ntx=0, coinbase_out=cb(3, 12))
    probe = [q("info"), q("utxos", addr=2, mc=-1), q("balance", addr=3, mc=0)]
    cmds = [{"c": "tick", "dt": 100000}]
    for b in [a[0], b1, c1, c2, c2x, a[1], d2, d2x, c3, a[2], a[3], a[4]]:
        cmds += [{"c": "offer", "initial": complete([b])}, {"c": "hb"}, {"c": "hb"}] + probe
    cmds += [{"c": "upgrade", "d": {}}] + probe + [{"c": "hb"}] * 2 + probe
    return w.scenario("directed-multi-fork-discard", {"thr": 2, "seed": 23}, cmds)


def long_headers():
    """Announced header blobs with bytes after the 80 header bytes: the decoder reads the header and ignores
    the rest, so they count as the header (first in the list, before / after the valid blob of the same
    header, for a header on a fork, for an already stored one)."""
    w = _w(24)
    chain = _plain_chain(w, 1, 8, 1)
    f1 = w.mine(chain[1], ntx=0, coinbase_out=cb(2, 3))
    probe = [q("info"), q("utxos", addr=1, mc=-1), q("headers", s=0, e=-1), q("fees")]
    cmds = [{"c": "tick", "dt": 100000}]
    cmds += [{"c": "offer", "initial": complete([chain[0]], [item(chain[1], "long"), item(chain[1]), item(chain[2])])}, {"c": "hb"}, {"c": "hb"}] + probe
    cmds += [{"c": "offer", "initial": complete([chain[1]], [item(chain[2]), item(chain[2], "long"), item(f1, "long"), item(chain[3])])}, {"c": "hb"}, {"c": "hb"}] + probe
    cmds += [{"c": "offer", "initial": complete([chain[2], f1], [item(chain[5], "long"), item(chain[3], "long"), item(chain[4])])}, {"c": "hb"}, {"c": "hb"}] + probe
    cmds += [{"c": "offer", "initial": complete([chain[3]], [item(chain[4], "long"), item(chain[5], "long"), item(chain[6], "long"), item(chain[7], "long")])}, {"c": "hb"}, {"c": "hb"}] + probe
    for b in chain[4:]:
        cmds += [{"c": "offer", "initial": complete([b])}, {"c": "hb"}, {"c": "hb"}] + probe
    return w.scenario("directed-long-headers", {"thr": 3, "seed": 24, "gate": True}, cmds)


def remined_chains(seed, directed=False):
    """Chains of transactions inside one block (an output created and spent in the same block, several links
    deep) mined again, wholly or as a dependency-closed prefix, in a competing block on another fork; the forks
    are then discarded / stabilised in turn (C20 reference counts of outputs referenced several times by one
    block and by several blocks; C01 / C05 answers; C15 fee rates of re-mined transactions)."""
    rng = random.Random(seed)
    w = _w(seed, naddr=3)
    thr = 2 if directed else rng.choice([1, 2, 2, 3])
    base = [1]
    for _ in range(2 if directed else rng.randint(2, 3)):
        base.append(w.mine(base[-1], ntx=0, coinbase_out=cb(rng.randint(1, 3), 1000)))
    funding = [(w.blocks[b]["txs"][0], 1) for b in base[1:]]
    # chains: t1 spends a funding output, t2 spends t1's output, ...
    chains = []
    for f in funding[: (1 if directed else rng.randint(1, len(funding)))]:
        depth = 2 if directed else rng.randint(2, 4)
        prev, val, ch = f, 1000, []
        for _k in range(depth):
            fee = 0 if directed else rng.choice([0, 1, 5, 20])
            val -= fee
            keep = 0 if directed else rng.choice([0, 0, 100])
            outs = [cb(rng.randint(1, 3), val - keep)] + ([cb(rng.randint(1, 3), keep)] if keep else [])
            val -= keep
            t = w.new_tx([prev], outs, w=(not directed and rng.random() < 0.4))
            ch.append(t)
            prev = (t, 1)
        chains.append(ch)
    tip = base[-1]
    nforks = 2 if directed else rng.choice([2, 2, 3])
    forks = []
    for i in range(nforks):
        b = w.mine(tip, ntx=0, coinbase_out=cb(3, 5 + i))
        for ch in chains:
            k = len(ch) if (directed or i == 0) else rng.randint(0, len(ch))      # dependency-closed prefix
            w.blocks[b]["txs"] += ch[:k]
        forks.append([b])
    # spend the end of a chain below the first fork (reference from a third block)
    if not directed and rng.random() < 0.6:
        last = chains[0][-1]
        t = w.new_tx([(last, 1)], [cb(1, w.txs[last]["outs"][0]["v"])])
        b = w.mine(forks[0][-1], ntx=0, coinbase_out=cb(2, 3))
        w.blocks[b]["txs"].append(t)
        forks[0].append(b)
    win = 0 if directed else rng.randrange(nforks)
    for _ in range(thr + 3):
        forks[win].append(w.mine(forks[win][-1], ntx=0, coinbase_out=cb(3, 5)))
    # fix the bookkeeping of the generator's own block list (transactions were appended after mining)
    byid = {b["id"]: b for b in w.block_list}
    for bid, blk in w.blocks.items():
        if bid in byid:
            byid[bid]["txs"] = list(blk["txs"])
    order = base[1:] + [f[0] for f in forks]
    rest = [f[1:] for f in forks]
    while any(rest):
        for r_ in rest:
            if r_:
                order.append(r_.pop(0))
    cmds = [{"c": "tick", "dt": 100000}]
    probe = [q("info"), q("fees")] + [x for a in (1, 2, 3) for x in (q("utxos", addr=a, mc=-1), q("balance", addr=a, mc=0),
                                                                    q("utxos", addr=a, mc=2, limit=1))]
    for i, b in enumerate(order):
        cmds += [{"c": "offer", "initial": complete([b])}, {"c": "hb"}, {"c": "hb"}]
        if not directed and rng.random() < 0.15:
            cmds.append({"c": "upgrade", "d": {}})
        cmds += probe if (directed or rng.random() < 0.5) else [q("info")]
    cmds += [{"c": "hb"}, {"c": "hb"}] + probe
    return w.scenario(f"remined-chains-{'directed' if directed else seed}", {"thr": thr, "seed": seed}, cmds)


def defect_positions():
    """Every block defect class at every position of a three-block response (first, middle, last), with
    announced headers behind it; then the same blocks delivered soundly (C10: blocks before the defect are
    admitted, the rest of the response is dropped, only an error counter moves; nothing is lost for good)."""
    S = []
    for ci, cls in enumerate(gen.BLOCK_DEFECTS + ["stale_time", "duplicate", "orphan"]):
        for pos in (0, 1, 2):
            w = _w(300 + ci * 3 + pos, naddr=2)
            b1 = w.mine(1, ntx=0, coinbase_out=cb(1, 50))
            good = [w.mine(b1, ntx=0, coinbase_out=cb(2, 50))]
            good.append(w.mine(good[-1], ntx=1))
            good.append(w.mine(good[-1], ntx=1))
            later = w.mine(good[-1], ntx=0)
            if cls == "stale_time":
                par = ([b1] + good)[pos]
                bad = item(w.mine(par, ntx=0, time=w.mtp(par)))
            elif cls == "duplicate":
                bad = item(b1)
            elif cls == "orphan":
                bad = item(w.mine(later, ntx=0))          # its parent has not been delivered
            else:
                bad = item(good[min(pos, 2)], cls)
            items = [item(b) for b in good]
            items.insert(pos, bad)
            probe = [q("info"), q("headers", s=0, e=-1), q("utxos", addr=1, mc=-1), q("balance", addr=2, mc=0)]
            cmds = [{"c": "tick", "dt": 100000}, {"c": "offer", "initial": complete([b1])}, {"c": "hb"}, {"c": "hb"}]
            cmds += [{"c": "offer", "initial": complete(items, [later])}, {"c": "hb"}, {"c": "hb"}] + probe
            cmds += [{"c": "offer", "initial": complete(good + [later])}, {"c": "hb"}, {"c": "hb"}, {"c": "hb"}] + probe
            S.append(w.scenario(f"defect-{cls}-at-{pos}", {"thr": 3, "seed": 300 + ci * 3 + pos, "gate": False}, cmds))
    return S


def directed(pid, tier="quick"):
    S = []
    if pid in ("C01", "C05", "C06"):
        S += [shared_tx_height(), prefix_pair("regtest"), prefix_pair("mainnet"), prefix_pair("testnet")]
    if pid in ("C04", "C05"):
        S += [balance_fork(), heavy_short_vs_light_long("regtest"), heavy_short_vs_light_long("testnet")]
    if pid in ("C02", "C05", "C01", "C06"):
        S += [heavy_short_vs_light_long("regtest"), heavy_short_vs_light_long("mainnet")]
    if pid in ("C07", "C08", "C05"):
        S += [paused_ingestion(), paused_ingestion((2, 3, 1, 1, 2))]
    if pid in ("C09", "C13", "C15"):
        S += [upgrade_points()]
    if pid in ("C13", "C10"):
        S += [partial_split_points()]
    if pid == "C10":
        S += defect_positions()
    if pid == "C14":
        S += [gate_heavy_short()]
    if pid in ("C14", "C10", "C20"):
        S += [long_headers()]
    if pid in ("C08", "C03"):
        S += [threshold_raise_while_paused()]
    if pid in ("C20", "C05", "C01"):
        S += [shared_spend_discard(0), shared_spend_discard(1)]
    if pid in ("C20", "C05", "C01", "C15"):
        S += [remined_chains(7, directed=True)] + [remined_chains(100 + i) for i in range(12 if tier == "quick" else 300)]
    if pid in ("C20", "C03"):
        S += [multi_fork_discard()]
    if pid in ("C03", "C07"):
        S += [depth_bound_tips("regtest", 2), depth_bound_tips("testnet", 144, 90, 14)]
    if pid == "C03":
        # several hundred blocks each: the real adaptive depth bound, the three-way tie, two forks beyond the bound
        S += [depth_bound_chain("testnet", 144, 0), tie_depth_escape("testnet"), two_long_forks_heavy_block("regtest")]
    if pid == "C03" and tier == "thorough":
        S += [depth_bound_chain("regtest", 6, 30), two_long_forks_heavy_block("testnet", 2, 302, 301)]
    return S


# ---------------------------------------------------------------------------------------------
# specialised random profiles
# ---------------------------------------------------------------------------------------------
def sliced_history(seed, nblocks=10):
    sc = gen.random_history(seed, nblocks=nblocks, thr=random.Random(seed).choice([1, 1, 2]), slicing=True,
                            heavy_probes=True, defects=False, name=f"sliced-{seed}")
    # make most heartbeats sliced
    rng = random.Random(seed + 99)
    for c in sc["cmds"]:
        if c.get("c") == "hb" and rng.random() < 0.7:
            c["budget"] = rng.randint(1, 3)
    return sc


def upgrade_history(seed, nblocks=12):
    rng = random.Random(seed + 7)
    sc = gen.random_history(seed, nblocks=nblocks, upgrades=True, heavy_probes=False, name=f"upgrade-{seed}")
    cmds = []
    for c in sc["cmds"]:
        cmds.append(c)
        if c.get("c") in ("hb", "offer") and rng.random() < 0.15:
            cmds.append(q("config"))
            cmds.append({"c": "upgrade", "d": rng.choice([{}, {}, {}, {"thr": rng.choice([1, 2, 3])}, {"gate": False}, {"lazy": True}])})
            cmds.append(q("config"))
            cmds += probes(rng, None, nblocks, len(sc["addrs"]), heavy=False)
    sc["cmds"] = cmds
    return sc


def paging_history(seed, nblocks=12):
    rng = random.Random(seed)
    sc = gen.random_history(seed, nblocks=nblocks, heavy_probes=False, name=f"paging-{seed}",
                            thr=rng.choice([1, 2, 3]))
    naddr = len(sc["addrs"])
    cmds = []
    wid = 0
    live = []
    sliced = seed % 2 == 1          # every other history: most ingestions are paused mid-block
    for c in sc["cmds"]:
        if sliced and c.get("c") in ("hb", "ingest") and rng.random() < 0.6:
            c = dict(c, budget=rng.randint(1, 3))
        cmds.append(c)
        if c.get("c") in ("hb", "push", "ingest"):
            if rng.random() < 0.5:
                wid += 1
                cmds.append({"c": "walk_start", "w": wid, "addr": rng.randint(1, naddr), "mc": rng.choice([-1, -1, 0, 1, 2]),
                             "limit": rng.choice([1, 1, 2])})
                live.append(wid)
            for wdx in list(live):
                if rng.random() < 0.5:
                    cmds.append({"c": "walk_next", "w": wdx})
            if rng.random() < 0.1:
                cmds.append({"c": "page_raw", "addr": rng.randint(1, naddr), "hex": bytes(rng.getrandbits(8) for _ in range(rng.choice([0, 1, 35, 71, 72, 72, 72, 73, 100]))).hex()})
    for wdx in live:
        for _ in range(6):
            cmds.append({"c": "walk_next", "w": wdx})
    sc["cmds"] = cmds
    return sc


def profile_history(pid, seed, tier):
    nb = 14 if tier == "quick" else 22
    if pid == "C10":
        return gen.random_history(seed, nblocks=nb, defects=True, heavy_probes=False, name=f"defects-{seed}")
    if pid == "C13":
        return interleaved_history(seed, nblocks=nb)
    if pid == "C14":
        if seed % 3 == 0:
            return gen.random_history(seed, nblocks=nb, gate=True, heavy_probes=False, name=f"gate-rand-{seed}")
        return gate_history(seed, nblocks=nb)
    if pid == "C15":
        return gen.random_history(seed, nblocks=nb, defects=False, heavy_probes=False, name=f"fees-{seed}")
    return gen.random_history(seed, nblocks=nb, heavy_probes=False, name=f"book-{seed}")


def interleaved_history(seed, nblocks=12):
    """Overlapping heartbeats: hb_send / other messages / hb_reply (C13)."""
    rng = random.Random(seed)
    sc = gen.random_history(seed, nblocks=nblocks, heavy_probes=False, name=f"interleaved-{seed}")
    cmds = []
    hid = 0
    open_ids = []
    for c in sc["cmds"]:
        if c.get("c") == "hb" and rng.random() < 0.6:
            hid += 1
            snd = {"c": "hb_send", "id": hid}
            if "budget" in c:
                snd["budget"] = c["budget"]
            cmds.append(snd)
            open_ids.append(hid)
            # other messages while the call is outstanding
            for _ in range(rng.choice([0, 1, 2])):
                x = rng.random()
                if x < 0.5:
                    hid += 1
                    cmds.append({"c": "hb_send", "id": hid})
                    open_ids.append(hid)
                elif x < 0.8:
                    cmds += probes(rng, None, nblocks, len(sc["addrs"]), heavy=False)[:4]
                elif x < 0.9:
                    cmds.append({"c": "set_config", "d": {"syncing": rng.random() < 0.7}})
                else:
                    cmds.append({"c": "upgrade", "d": {}})
                    open_ids = []
            rng.shuffle(open_ids)
            for i in open_ids:
                rep = {"c": "hb_reply", "id": i}
                if "followup" in c:
                    rep["followup"] = c["followup"]
                cmds.append(rep)
            open_ids = []
        else:
            cmds.append(c)
    sc["cmds"] = cmds
    return sc


# ---------------------------------------------------------------------------------------------
# C16 / C19
# ---------------------------------------------------------------------------------------------
def rand_fees(rng):
    """A small fee table (all arithmetic stays below 2^31) with maximum >= base."""
    def trio():
        base = rng.choice([0, 0, 1, 7, 50, 1000])
        rate = rng.choice([0, 1, 3, 10])
        mx = base + rng.choice([0, 0, 1, 5, 100, 5000, 1000000])
        return base, rate, mx
    ub, ur, um = trio()
    hb, hr, hm = trio()
    bal = rng.choice([0, 1, 10, 400])
    pct = rng.choice([0, 1, 10, 400])
    return {"ub": ub, "ur": ur, "um": um, "bal": bal, "balm": bal + rng.choice([0, 0, 3, 1000]),
            "pct": pct, "pctm": pct + rng.choice([0, 0, 3, 1000]), "hb": hb, "hr": hr, "hm": hm,
            "sb": rng.choice([0, 5, 2000]), "sp": rng.choice([0, 1, 8, 20])}


def _pay(rng, fees, key_max):
    """Cycles attached to a call: around the endpoint's maximum."""
    m = fees[key_max]
    return rng.choice([-1, -1, m, m + 1, max(0, m - 1), 0, m // 2])


def cycles_history(seed, nblocks=8):
    rng = random.Random(seed)
    sc = gen.random_history(seed, nblocks=nblocks, heavy_probes=False, defects=False, upgrades=False,
                            net=rng.choice(["regtest", "regtest", "mainnet", "testnet"]), name=f"cycles-{seed}",
                            full=None)
    fees = rand_fees(rng)
    sc["config"]["fees"] = fees
    naddr = len(sc["addrs"])
    cmds = []
    for c in sc["cmds"]:
        if c.get("c") == "q" and c.get("ep") in ("utxos", "balance", "headers", "fees"):
            c = dict(c)
            c["instr"] = rng.choice([0, 5, 9, 10, 19, 100, 1234, 99999, 1000000])
            key = {"utxos": "um", "balance": "balm", "headers": "hm", "fees": "pctm"}[c["ep"]]
            c["avail"] = _pay(rng, fees, key)
            if c.get("ep") == "utxos":
                c["limit"] = 0
        cmds.append(c)
        if c.get("c") in ("hb", "ingest") and rng.random() < 0.3:
            # error outcomes: malformed / wrong-network address, too large min_confirmations, bad ranges
            ins = rng.choice([0, 10, 777, 50000])
            cmds.append(q("utxos", addr=rng.choice(["malformed", "wrongnet", rng.randint(1, naddr)]), mc=rng.choice([-1, 0, 50]),
                          instr=ins, avail=_pay(rng, fees, "um"), mode=rng.choice(["update", "update", "query"])))
            cmds.append(q("balance", addr=rng.choice(["malformed", "wrongnet", rng.randint(1, naddr)]), mc=rng.choice([-1, 0, 50]),
                          instr=ins, avail=_pay(rng, fees, "balm"), mode=rng.choice(["update", "update", "query"])))
            cmds.append(q("headers", s=rng.choice([0, 1, 99]), e=rng.choice([-1, 0, 99]), instr=ins, avail=_pay(rng, fees, "hm")))
            cmds.append(q("fees", instr=ins, avail=_pay(rng, fees, "pctm")))
        if rng.random() < 0.05:
            fees = rand_fees(rng)
            cmds.append({"c": "set_config", "d": {"fees": fees}})
        if rng.random() < 0.1:
            cmds += send_tx_cmds(rng, fees, 2)
    sc["cmds"] = cmds
    return sc


MUTS = ["exact", "exact", "trunc", "extend", "flip", "flip", "garbage", "empty", "prepend"]


TX_SHAPES = ["null_prev", "null_prev", "null_prev_all", "zero_txid", "max_vout", "dup_inputs", "huge_value", "zero_value",
             "op_return", "empty_script", "big_script", "neg_version", "max_version", "max_locktime"]


def send_tx_cmds(rng, fees, n, nets=None):
    out = []
    for _ in range(n):
        k = rng.choice(MUTS)
        mut = {"k": k}
        if k == "trunc":
            mut["n"] = rng.choice([1, 1, 2, 4, 9, 40])
        elif k in ("extend", "prepend"):
            mut["hex"] = bytes(rng.getrandbits(8) for _ in range(rng.choice([1, 1, 2, 4, 60]))).hex()
        elif k == "flip":
            mut["bit"] = rng.randint(0, 4000)
        elif k == "garbage":
            mut["len"] = rng.choice([1, 4, 10, 60, 200])
        tx = {"nin": rng.choice([0, 1, 1, 2, 3]), "nout": rng.choice([0, 1, 1, 2, 4]), "w": rng.random() < 0.5, "salt": rng.randint(0, 1000)}
        if rng.random() < 0.35:
            # well-formed transactions of unusual shape: still exactly one serialised transaction
            tx["shape"] = rng.choice(TX_SHAPES)
            if rng.random() < 0.5:
                tx["nin"] = rng.choice([1, 1, 2, 40])
                tx["nout"] = rng.choice([1, 2, 40])
            if rng.random() < 0.6:
                mut = {"k": "exact"}
        cmd = {"c": "send_tx", "tx": tx, "mut": mut}
        if nets:
            cmd["net"] = rng.choice(nets)
        if fees is not None:
            cmd["avail"] = rng.choice([-1, -1, -1, 0, fees["sb"], fees["sb"] + fees["sp"] * 60, fees["sb"] + fees["sp"] * 5000])
        out.append(cmd)
    return out


def sendtx_history(seed, n=120):
    rng = random.Random(seed)
    net = rng.choice(["regtest", "mainnet", "testnet"])
    w = gen.World(rng, net=net, naddr=2, prefix_pair=False)
    fees = rand_fees(rng)
    cmds = [{"c": "tick", "dt": 100000}]
    others = [x for x in ["regtest", "mainnet", "testnet", "Regtest", "Mainnet", "Testnet"]]
    # (regtest, where blocks can travel through the heartbeat) the canister falls behind the announced headers in
    # the middle third of the history, with the sync rule switched on: send_transaction is exempt from it
    lag = []
    if net == "regtest":
        b = 1
        for _ in range(6):
            b = w.mine(b, ntx=0)
            lag.append(b)
    for i in range(n):
        if lag and i == n // 3:
            cmds += [{"c": "set_config", "d": {"gate": True, "api": True}}, {"c": "offer", "initial": complete(lag[:1], lag[1:])},
                     {"c": "hb"}, {"c": "hb"}, q("info"), q("balance", addr=1, mc=-1)]
        if lag and i == (2 * n) // 3:
            cmds += [{"c": "offer", "initial": complete(lag[1:])}, {"c": "hb"}, {"c": "hb"}, {"c": "hb"}, q("info"), q("balance", addr=1, mc=-1)]
        if rng.random() < 0.06:
            cmds.append({"c": "set_config", "d": rng.choice([{"api": False}, {"api": True}, {"api": True}, {"gate": True}, {"fees": rand_fees(rng)}])})
        cmds += send_tx_cmds(rng, fees if rng.random() < 0.5 else None, 1, nets=[net] * 6 + others)
    return w.scenario(f"sendtx-{net}-{seed}", {"thr": 2, "seed": seed, "fees": fees, "book": False}, cmds)


# ---------------------------------------------------------------------------------------------
# C14: gate
# ---------------------------------------------------------------------------------------------
NETS = ["regtest", "mainnet", "testnet", "Regtest", "Mainnet", "Testnet"]


def gate_queries(rng, naddr, own_net):
    out = []
    for _ in range(rng.randint(3, 7)):
        net = rng.choice([own_net] * 4 + NETS)
        k = rng.random()
        if k < 0.3:
            out.append(q("utxos", addr=rng.randint(1, naddr), mc=rng.choice([-1, 0, 1]), net=net, mode=rng.choice(["update", "query"])))
        elif k < 0.55:
            out.append(q("balance", addr=rng.randint(1, naddr), mc=rng.choice([-1, 0, 1]), net=net, mode=rng.choice(["update", "query"])))
        elif k < 0.75:
            out.append(q("headers", s=0, e=-1, net=net))
        elif k < 0.9:
            out.append(q("fees", net=net))
        else:
            out += send_tx_cmds(rng, None, 1, nets=[net])
    out.append(q("info"))
    out.append(q("config"))
    return out


def gate_history(seed, nblocks=14):
    """Announced headers ahead of the tip, on forks, stale; flags flipped; every endpoint asked."""
    rng = random.Random(seed)
    w = World(rng, net="regtest", naddr=3, prefix_pair=False, diffs=rng.choice([(1,), (1,), (1, 3), (1, 2, 5)]))
    thr = rng.choice([1, 2, 3])
    chain = [1]
    forks = []
    for i in range(nblocks):
        chain.append(w.mine(chain[-1], ntx=rng.choice([0, 1])))
        if rng.random() < 0.25:
            forks.append(w.mine(rng.choice(chain[-3:]), ntx=0))
        elif forks and rng.random() < 0.2:
            forks.append(w.mine(forks[-1], ntx=0))          # forks longer than one block (length and work disagree)
    cmds = [{"c": "tick", "dt": 100000}]
    pos = 0          # index in chain of the last delivered block (genesis)
    delivered_forks = set()
    while pos < len(chain) - 1:
        k = rng.randint(1, 3)
        batch = chain[pos + 1: pos + 1 + k]
        ahead = rng.choice([0, 1, 2, 3, 4, 6])
        nxt = chain[pos + 1 + len(batch): pos + 1 + len(batch) + ahead]
        extra = [f for f in forks if f not in delivered_forks and rng.random() < 0.4]
        hdrs = [item(b) for b in nxt]
        for f in extra:
            if rng.random() < 0.5:
                hdrs.insert(rng.randint(0, len(hdrs)), item(f))          # announced fork header
            else:
                batch = batch + [f]
                delivered_forks.add(f)
        if rng.random() < 0.15 and hdrs:
            hdrs.insert(rng.randint(0, len(hdrs)), item(rng.choice(chain), rng.choice(gen.HEADER_DEFECTS + ["long", "long"])))
        cmds.append({"c": "offer", "initial": complete(batch, hdrs)})
        pos += k
        for _ in range(rng.randint(2, 4)):
            cmds.append({"c": "hb"})
            if rng.random() < 0.6:
                cmds += gate_queries(rng, 3, "regtest")
            if rng.random() < 0.25:
                cmds.append({"c": "set_config", "d": rng.choice([{"gate": True}, {"gate": True}, {"gate": False}, {"api": False}, {"api": True},
                                                               {"api": True}, {"thr": rng.choice([1, 2, 3])}])})
                cmds += gate_queries(rng, 3, "regtest")
            if rng.random() < 0.08:
                cmds.append({"c": "upgrade", "d": {}})
                cmds += gate_queries(rng, 3, "regtest")
    cmds.append({"c": "set_config", "d": {"api": True, "gate": True}})
    for _ in range(4):
        cmds.append({"c": "hb"})
        cmds += gate_queries(rng, 3, "regtest")
    return w.scenario(f"gate-{seed}", {"thr": thr, "seed": seed, "gate": True}, cmds)


# ---------------------------------------------------------------------------------------------
# C03: the adaptive depth bound of testnet / regtest (long chains, direct mode)
# ---------------------------------------------------------------------------------------------
def _plain_chain(w, parent, n, diff):
    out = []
    p = parent
    for _ in range(n):
        p = w.mine(p, ntx=0, coinbase_out=cb(1, 1), diff=diff, time=w.blocks[p]["time"] + 600)
        out.append(p)
    return out


def depth_bound_chain(net="testnet", thr=144, competing=0):
    """A single long chain whose difficulty never reaches the threshold: the anchor must advance exactly
    when the chain's depth reaches the adaptive bound (and leads the runner-up by it)."""
    w = World(random.Random(31), net=net, naddr=1, prefix_pair=False)
    w.blocks[1]["diff"] = 1000000
    main = _plain_chain(w, 1, 420, 1)
    side = _plain_chain(w, 1, competing, 1) if competing else []
    cmds = [{"c": "tick", "dt": 100000}]
    cmds.append({"c": "bulk_push", "bs": side + main[:385]})
    cmds.append({"c": "ingest"})
    for b in main[385:]:
        cmds.append({"c": "push", "b": b})
        cmds.append({"c": "ingest"})
        cmds.append(q("info"))
    cmds += [q("headers", s=0, e=-1), q("headers", s=150, e=-1), q("headers", s=150, e=249), q("headers", s=150, e=250),
             q("headers", s=380, e=-1), q("headers", s=421, e=-1)]
    sc = w.scenario(f"depth-bound-{net}-{thr}-{competing}", {"thr": thr, "seed": 31, "book": False}, cmds)
    sc["blocks"].insert(0, {"id": 1, "parent": 0, "diff": 1000000, "time": 0, "txs": [1]})
    return sc


def depth_bound_tips(net="regtest", thr=2, chain_len=110, tips=10):
    """A chain far below the adaptive depth bound that ends in many sibling tips: the bound depends on the
    NUMBER OF BLOCKS in the tree (each once), not on the tips' depths; the anchor must stay."""
    w = World(random.Random(33), net=net, naddr=1, prefix_pair=False)
    w.blocks[1]["diff"] = 1000000
    main = _plain_chain(w, 1, chain_len, 1)
    sibs = [w.mine(main[-2], ntx=0, coinbase_out=cb(1, 1), diff=1, time=w.blocks[main[-2]]["time"] + 600 + i) for i in range(1, tips + 1)]
    cmds = [{"c": "tick", "dt": 100000}, {"c": "bulk_push", "bs": main[:-1]}, {"c": "ingest"}, q("info")]
    for b in [main[-1]] + sibs:
        cmds += [{"c": "push", "b": b}, {"c": "ingest"}]
    # more than 100 unstable blocks: the answer is capped at start + 99 (C07)
    cmds += [q("info"), q("headers", s=0, e=2), q("headers", s=0, e=-1), q("headers", s=5, e=-1), q("headers", s=10, e=200),
             q("headers", s=9, e=108), q("headers", s=9, e=109), q("headers", s=chain_len - 1, e=-1), q("headers", s=chain_len + 1, e=-1)]
    sc = w.scenario(f"depth-bound-tips-{net}-{thr}", {"thr": thr, "seed": 33, "book": False}, cmds)
    sc["blocks"].insert(0, {"id": 1, "parent": 0, "diff": 1000000, "time": 0, "txs": [1]})
    return sc


def two_long_forks_heavy_block(net="regtest", thr=144, la=350, lb=349):
    """Two forks of the anchor, both longer than the adaptive depth bound and less than the bound apart: the
    depth escape does not apply, and when one heavy block lands on one of them the DIFFICULTY rule must still
    advance the anchor (the two rules are a disjunction)."""
    w = World(random.Random(34), net=net, naddr=1, prefix_pair=False)
    a = _plain_chain(w, 1, la, 1)
    b = _plain_chain(w, 1, lb, 1)
    heavy = w.mine(a[-1], ntx=0, coinbase_out=cb(1, 1), diff=5000, time=w.blocks[a[-1]]["time"] + 600)
    cmds = [{"c": "tick", "dt": 1000000}, {"c": "bulk_push", "bs": a + b}, {"c": "ingest"}, q("info"),
            {"c": "push", "b": heavy}, q("info"), {"c": "ingest"}, q("info"), q("headers", s=0, e=3), q("headers", s=la - 5, e=-1)]
    return w.scenario(f"two-long-forks-{net}", {"thr": thr, "seed": 34, "book": False}, cmds)


def tie_depth_escape(net="testnet", la=302, lc=301):
    """Three children of the anchor tied on accumulated difficulty: c1 (302 blocks, received first),
    c2 (one heavy block), c3 (301 blocks, received last).  The depth escape picks c3, the served chain
    runs through c1."""
    w = World(random.Random(32), net=net, naddr=1, prefix_pair=False)
    w.blocks[1]["diff"] = 1000000000
    a = _plain_chain(w, 1, la, lc)          # sum la * lc
    b = _plain_chain(w, 1, 1, la * lc)
    c = _plain_chain(w, 1, lc, la)          # sum lc * la
    cmds = [{"c": "tick", "dt": 100000}]
    cmds.append({"c": "bulk_push", "bs": a + b + c[:-3]})
    cmds.append({"c": "ingest"})
    cmds.append(q("info"))
    for x in c[-3:]:
        cmds.append({"c": "push", "b": x})
        cmds.append(q("info"))
        cmds.append({"c": "ingest"})
        cmds.append(q("info"))
        cmds.append(q("headers", s=0, e=3))
    sc = w.scenario(f"tie-depth-escape-{net}", {"thr": 1, "seed": 32, "book": False}, cmds)
    sc["blocks"].insert(0, {"id": 1, "parent": 0, "diff": 1000000000, "time": 0, "txs": [1]})
    return sc


# ---------------------------------------------------------------------------------------------
# C03 / C02: several children of the anchor with chosen difficulties
# ---------------------------------------------------------------------------------------------
DIFFS = [1, 1, 2, 3, 5, 8, 13, 20, 25]


def stability_history(seed, net=None):
    rng = random.Random(seed)
    net = net or rng.choice(["regtest", "regtest", "mainnet", "testnet"])
    full = net == "regtest"
    w = World(rng, net=net, naddr=2, prefix_pair=False)
    anchor_diff = rng.choice([1, 1, 2, 5])
    w.blocks[1]["diff"] = anchor_diff
    thr = rng.choice([1, 2, 2, 3, 4])
    cmds = [{"c": "tick", "dt": 1000000}]
    base = 1
    qs = [q("info"), q("headers", s=0, e=-1), q("utxos", addr=1, mc=-1), q("utxos", addr=1, mc=1), q("utxos", addr=1, mc=2),
          q("balance", addr=1, mc=2), q("utxos", addr=2, mc=3)]
    for round_ in range(rng.randint(1, 3)):
        # k forks below `base`, each a short chain with its own difficulties
        k = rng.choice([2, 3, 3, 4])
        branches = []
        for _ in range(k):
            ln = rng.randint(1, 4)
            chain = []
            p = base
            for _i in range(ln):
                p = w.mine(p, ntx=rng.choice([0, 0, 1]), diff=rng.choice(DIFFS))
                chain.append(p)
            branches.append(chain)
        # deliver in an arrival order that respects parent-before-child within a branch
        idx = [0] * k
        order = []
        while any(idx[i] < len(branches[i]) for i in range(k)):
            i = rng.choice([j for j in range(k) if idx[j] < len(branches[j])])
            order.append(branches[i][idx[i]])
            idx[i] += 1
        for b in order:
            if full:
                cmds.append({"c": "hb", "initial": complete([b])})
                cmds.append({"c": "hb"})
                cmds.append({"c": "hb", "budget": rng.choice([0, 0, 1, 2])} if rng.random() < 0.8 else {"c": "hb"})
            else:
                cmds.append({"c": "push", "b": b})
                cmds.append({"c": "ingest", "budget": 0})
            if rng.random() < 0.5:
                cmds += qs
            if rng.random() < 0.12:
                cmds.append({"c": "set_config", "d": {"thr": rng.choice([1, 2, 3, 4])}})
                cmds.append({"c": "hb"} if full else {"c": "ingest", "budget": 0})
        # the next round forks below the first block of the heaviest-looking branch
        base = max(branches, key=lambda c: sum(w.blocks[x]["diff"] for x in c))[0]
        for _ in range(3):
            cmds.append({"c": "hb"} if full else {"c": "ingest", "budget": 0})
        cmds += qs
    sc = w.scenario(f"stability-{net}-{seed}", {"thr": thr, "seed": seed, "gate": False}, cmds)
    sc["blocks"].insert(0, {"id": 1, "parent": 0, "diff": anchor_diff, "time": 0, "txs": [1]})
    return sc


# ---------------------------------------------------------------------------------------------
# complete enumeration of small fork trees (shape x arrival order x difficulty assignment)
# ---------------------------------------------------------------------------------------------
import itertools


def enum_tree_specs(maxb, diffs):
    """All (parents, difficulties) for trees of 1..maxb blocks above genesis: block i+1 (id i+2) extends any
    earlier block, which enumerates every shape in every arrival order."""
    out = []
    for nb in range(1, maxb + 1):
        for parents in itertools.product(*[range(1, i + 2) for i in range(nb)]):
            for ds in itertools.product(diffs, repeat=nb):
                out.append((parents, ds))
    return out


def enum_tree_scenario(spec, idx, net, thr, anchor_diff=1):
    parents, ds = spec
    rng = random.Random(idx)
    w = World(rng, net=net, naddr=2, prefix_pair=False)
    w.blocks[1]["diff"] = anchor_diff
    cmds = [{"c": "tick", "dt": 1000000}]
    nb = len(parents)
    for i, (p, d) in enumerate(zip(parents, ds)):
        b = w.mine(p, ntx=0, coinbase_out=cb(1 + (i % 2), 10 + i), diff=d, time=w.blocks[p]["time"] + 600)
        cmds.append({"c": "push", "b": b})
        if thr < 50:
            cmds.append({"c": "ingest"})
        last = i == nb - 1
        if last or rng.random() < 0.35:
            cmds.append(q("info"))
            cmds.append(q("headers", s=0, e=-1))
            cmds.append(q("headers", s=rng.randint(0, nb), e=rng.choice([-1, rng.randint(0, nb + 1)])))
            for mc in ([-1, 0, 1, 2, 3, nb + 1] if last else [-1, rng.choice([1, 2])]):
                cmds.append(q("utxos", addr=1, mc=mc, mode="query"))
                cmds.append(q("balance", addr=1, mc=mc, mode="query"))
            if last:
                cmds.append(q("utxos", addr=2, mc=1, mode="query"))
                cmds.append(q("balance", addr=2, mc=2, mode="query"))
    sc = w.scenario(f"enum-{net}-thr{thr}-{idx}", {"thr": thr, "seed": idx, "gate": False, "lazy": True, "book": nb <= 3}, cmds)
    sc["blocks"].insert(0, {"id": 1, "parent": 0, "diff": anchor_diff, "time": 0, "txs": [1]})
    return sc


def enum_trees(tier, seed):
    """quick: every tree of <= 3 blocks with difficulties {1,2,3} and every tree of <= 4 blocks with difficulties
    {1,3} (threshold 100 = nothing stabilises) plus a seeded sample of 4-block trees with small thresholds;
    thorough: <= 4 blocks {1,2,3}, <= 5 blocks {1,3}, sample of 5-block trees."""
    rng = random.Random(seed)
    nets = ["mainnet", "testnet", "regtest"]
    out = []
    base = enum_tree_specs(3 if tier == "quick" else 4, (1, 2, 3))
    # one block more with two difficulties far apart: a heavy short branch beats a light long one
    # (accumulated difficulty and length disagree, also below a block of the served chain)
    base += [x for x in enum_tree_specs(4 if tier == "quick" else 5, (1, 3)) if x not in set(base)]
    for i, spec in enumerate(base):
        out.append(enum_tree_scenario(spec, i, nets[i % 3], 100))
    extra = enum_tree_specs(4 if tier == "quick" else 5, (1, 2))
    rng.shuffle(extra)
    for i, spec in enumerate(extra[: (150 if tier == "quick" else 2500)]):
        out.append(enum_tree_scenario(spec, 100000 + i, nets[i % 3], rng.choice([100, 100, 1, 2, 3]), anchor_diff=rng.choice([1, 1, 2])))
    return out


# ---------------------------------------------------------------------------------------------
# C15: more than 10,000 fee-paying transactions (thorough tier)
# ---------------------------------------------------------------------------------------------
def fee_cut_history(seed=1, per_block=3400, nblocks=4, upgrade_before=None, distinct=False):
    """Blocks with thousands of one-input transactions.  All transactions have the same shape (same
    vsize); the oldest block that straddles the 10,000 cut pays one uniform fee, so that the statement's
    freedom about WHICH of its transactions count cannot matter.
    `upgrade_before` = k: an upgrade just before the k-th spending block is delivered, so that the percentiles
    are recomputed from block bodies of blocks received before the upgrade (no insertion-time fee rates), with the
    cut inside such a block.  `distinct`: every transaction of the newer blocks pays a different fee, so that the
    sorted bag is strictly increasing there and one transaction more or less shifts every percentile above it."""
    rng = random.Random(seed)
    w = World(rng, net="regtest", naddr=2, prefix_pair=False)
    total = per_block * nblocks
    fund_value = 100000 if distinct else 1000
    nextfee = [7]
    # funding: coinbases with many outputs
    fund = []
    parent = 1
    left = total
    while left > 0:
        k = min(left, 2500)
        outs = [cb(1, fund_value) for _ in range(k)]
        tid = w.new_tx([], outs)
        bid = len(w.blocks) + 1
        ledger = dict(w.blocks[parent]["ledger"])
        w.apply(ledger, tid)
        t = w.blocks[parent]["time"] + 600
        w.blocks[bid] = {"id": bid, "parent": parent, "height": w.blocks[parent]["height"] + 1, "time": t, "txs": [tid], "diff": 1, "ledger": ledger}
        w.block_list.append({"id": bid, "parent": parent, "diff": 1, "time": t, "txs": [tid]})
        fund += [(tid, j) for j in range(1, k + 1)]
        parent = bid
        left -= k
    rng.shuffle(fund)
    cmds = [{"c": "tick", "dt": 1000000}]
    spend_blocks = []
    pos = 0
    for bi in range(nblocks):
        cbt = w.new_tx([], [cb(2, 1)])
        txs = [cbt]
        # the oldest spending block (the one cut by the 10,000 limit) pays a uniform fee
        fees = [7] if bi == 0 else [1, 2, 3, 5, 8, 13, 21, 34, 55, 89, 144, 233]
        for _ in range(per_block):
            o = fund[pos]
            pos += 1
            fee = rng.choice(fees)
            if distinct and bi > 0:
                nextfee[0] += 1
                fee = nextfee[0]
            txs.append(w.new_tx([o], [cb(2, fund_value - fee)], w=False))
        bid = len(w.blocks) + 1
        t = w.blocks[parent]["time"] + 600
        w.blocks[bid] = {"id": bid, "parent": parent, "height": w.blocks[parent]["height"] + 1, "time": t, "txs": txs, "diff": 1, "ledger": {}}
        w.block_list.append({"id": bid, "parent": parent, "diff": 1, "time": t, "txs": txs})
        spend_blocks.append(bid)
        parent = bid
    allb = [b["id"] for b in w.block_list]
    for b in allb:
        if upgrade_before is not None and b == spend_blocks[upgrade_before]:
            cmds.append({"c": "upgrade", "d": {}})
            cmds.append(q("fees"))
        cmds.append({"c": "offer", "initial": complete([b])})
        cmds.append({"c": "hb"})
        cmds.append({"c": "hb"})
        cmds.append(q("fees"))
    cmds.append({"c": "upgrade", "d": {}})
    cmds.append(q("fees"))
    cmds.append({"c": "upgrade", "d": {"lazy": True}})
    cmds.append({"c": "hb"})
    cmds.append(q("fees"))
    return w.scenario(f"fee-cut-{seed}-{per_block}x{nblocks}-u{upgrade_before}", {"thr": 100, "seed": seed, "book": False, "lazy": False}, cmds)


# ---------------------------------------------------------------------------------------------
# C06: the real page limit (1000) on an address with thousands of UTXOs
# ---------------------------------------------------------------------------------------------
def big_address_history(seed=1, per_block=1100, nblocks=3):
    rng = random.Random(seed)
    w = World(rng, net="regtest", naddr=2, prefix_pair=False)
    parent = 1
    blocks = []
    for i in range(nblocks):
        outs = [cb(1, 1 + (j % 7)) for j in range(per_block)] + [cb(2, 3)]
        tid = w.new_tx([], outs)
        bid = len(w.blocks) + 1
        ledger = dict(w.blocks[parent]["ledger"])
        w.apply(ledger, tid)
        t = w.blocks[parent]["time"] + 600
        w.blocks[bid] = {"id": bid, "parent": parent, "height": w.blocks[parent]["height"] + 1, "time": t, "txs": [tid], "diff": 1, "ledger": ledger}
        w.block_list.append({"id": bid, "parent": parent, "diff": 1, "time": t, "txs": [tid]})
        blocks.append(bid)
        parent = bid
    # a block that spends a few of the first block's outputs (in the middle of page ranges)
    spend = w.mine(parent, ntx=0, coinbase_out=cb(2, 1))
    t0 = w.blocks[blocks[0]]["txs"][0]
    sp = w.new_tx([(t0, 1), (t0, 500), (t0, 1000), (t0, 1001)], [cb(2, 5)])
    w.blocks[spend]["txs"].append(sp)
    tail = w.mine(spend, ntx=0, coinbase_out=cb(1, 9))
    cmds = [{"c": "tick", "dt": 1000000}]
    hb3 = [{"c": "hb"}, {"c": "hb"}, {"c": "hb"}]
    cmds += [{"c": "offer", "initial": complete(blocks[:2])}] + hb3
    cmds += [q("utxos", addr=1, mc=-1), q("balance", addr=1, mc=-1), {"c": "walk_start", "w": 1, "addr": 1, "mc": -1, "limit": 0}]
    cmds += [{"c": "offer", "initial": complete(blocks[2:] + [spend])}] + hb3
    cmds += [{"c": "walk_next", "w": 1}, {"c": "walk_start", "w": 2, "addr": 1, "mc": 1, "limit": 0},
             {"c": "walk_start", "w": 3, "addr": 1, "mc": -1, "limit": 0}, q("utxos", addr=1, mc=-1)]
    cmds += hb3 + [{"c": "walk_next", "w": 1}, {"c": "walk_next", "w": 2}, {"c": "walk_next", "w": 3}]
    cmds += [{"c": "offer", "initial": complete([tail])}] + hb3 + hb3
    for _ in range(4):
        cmds += [{"c": "walk_next", "w": 1}, {"c": "walk_next", "w": 2}, {"c": "walk_next", "w": 3}]
    cmds += [q("utxos", addr=1, mc=-1), q("utxos", addr=1, mc=2), q("balance", addr=1, mc=2), q("utxos", addr=2, mc=-1), q("info")]
    return w.scenario(f"big-address-{seed}", {"thr": 4, "seed": seed, "book": False, "lazy": True, "gate": False}, cmds)
