"""TLC model-checking stages (M): bounded instances of the specification."""
import os
import re

import runner


def for_property(pid, tier):
    return [m for m in MODELS if pid in m["props"] and tier in m["tiers"]]


MODELS = [
    {"name": "MC_Ledger (<= 3 blocks with transaction content, one ingestion operation per step: mechanisms = reference)",
     "module": "MC_Ledger", "cfg": "MC_Ledger_quick.cfg", "props": ["C01", "C05", "C08", "C20"], "tiers": ["quick"], "workers": 12, "timeout": 900},
    {"name": "MC_Ledger (<= 4 blocks with transaction content, one ingestion operation per step: mechanisms = reference)",
     "module": "MC_Ledger", "cfg": "MC_Ledger_thorough.cfg", "props": ["C01", "C04", "C05", "C08", "C20"], "tiers": ["thorough"], "workers": 16, "timeout": 7000, "heap": "24g"},
    {"name": "MC_Sync (2 overlapping heartbeats, <= 2 pages, <= 3 faults: safety + liveness under fairness)",
     "module": "MC_Sync", "cfg": "MC_Sync_quick.cfg", "props": ["C13"], "tiers": ["quick"], "workers": 8, "timeout": 900},
    {"name": "MC_Sync (3 overlapping heartbeats, <= 3 pages, <= 5 faults: safety + liveness under fairness)",
     "module": "MC_Sync", "cfg": "MC_Sync_thorough.cfg", "props": ["C13"], "tiers": ["thorough"], "workers": 16, "timeout": 3000, "heap": "16g"},
    {"name": "MC_BigNat (base 7, all pairs 0..120: add, sub, mul, compare, divmod, base conversion vs native arithmetic)",
     "module": "MC_BigNat", "cfg": "MC_BigNat.cfg", "props": ["C11", "C16"], "tiers": ["quick", "thorough"], "workers": 8, "timeout": 900},
    {"name": "MC_Header (retarget interval scaled to 4 blocks, all honest chains of <= 7 headers from 3 starting difficulties, 5 timestamp choices, 3 networks: limit, canonical bits, clamp, walk-back = declarative, median monotone)",
     "module": "MC_Header", "cfg": "MC_Header_quick.cfg", "props": ["C11"], "tiers": ["quick"], "workers": 8, "timeout": 900},
    {"name": "MC_Header (retarget interval scaled to 4 blocks, all honest chains of <= 9 headers (two retargets) from 3 starting difficulties, 5 timestamp choices, 3 networks)",
     "module": "MC_Header", "cfg": "MC_Header_thorough.cfg", "props": ["C11"], "tiers": ["thorough"], "workers": 16, "timeout": 7000, "heap": "16g"},
    {"name": "MC_System (watchdog tick in four awaited steps around the canister's api flag, one operator intervention, 3 explorers with one faulty per round, network height <= 5: writes are decisions; liveness: behind => eventually disabled, in band => eventually enabled)",
     "module": "MC_System", "cfg": "MC_System_quick.cfg", "props": ["C17"], "tiers": ["quick"], "workers": 8, "timeout": 900},
    {"name": "MC_System (two overlapping ticks)",
     "module": "MC_System", "cfg": "MC_System_thorough.cfg", "props": ["C17"], "tiers": ["thorough"], "workers": 12, "timeout": 6000, "heap": "16g"},
    {"name": "TLAPS WatchdogProofs (unbounded: no action without canister height or quorum, target = median, enabled iff in band)",
     "kind": "tlaps", "module": "WatchdogProofs", "props": ["C17"], "tiers": ["quick", "thorough"], "timeout": 900},
    {"name": "TLAPS FeesProofs (unbounded: charged <= required for every sane fee table, request-level errors charge the base / flat fee, a call that carried enough is never charged more than it carried)",
     "kind": "tlaps", "module": "FeesProofs", "props": ["C16"], "tiers": ["quick", "thorough"], "timeout": 900},
    {"name": "MC_Watchdog (4 providers, quorum 2, band +-2, grid of 6 results, all rounds from all states)",
     "module": "MC_Watchdog", "cfg": "MC_Watchdog.cfg", "props": ["C17"], "tiers": ["quick", "thorough"], "workers": 8, "timeout": 600},
    {"name": "MC_Tree (<= 4 blocks, diffs {1,2}, thr {1,2}, mainnet + regtest with depth bound 2)",
     "module": "MC_Tree", "cfg": "MC_Tree_quick.cfg", "props": ["C02", "C03", "C04", "C07", "C10", "C14"],
     "tiers": ["quick"], "workers": 12, "timeout": 600},
    {"name": "MC_Tree liveness (<= 4 blocks; under weak fairness of the heartbeat alone, whatever its budget, a paused ingestion always completes - except in the situation of known finding KF_ThresholdRaiseWhilePaused, which TLC finds when the exception is removed)",
     "module": "MC_Tree", "cfg": "MC_Tree_live.cfg", "props": ["C08"], "tiers": ["quick", "thorough"], "workers": 12, "timeout": 1500},
    {"name": "MC_Tree (<= 5 blocks, diffs {1,2}, thr {1,2}, mainnet + regtest with depth bound 2)",
     "module": "MC_Tree", "cfg": "MC_Tree_thorough.cfg", "props": ["C02", "C03", "C04", "C07", "C10", "C14"],
     "tiers": ["thorough"], "workers": 16, "timeout": 3000, "heap": "24g"},
]


def run_proofs(m, wd):
    """TLAPS: every obligation of the module must be proved (unbounded statements about operators that the
    trace / decision specifications use)."""
    import subprocess
    import time
    d = os.path.join(runner.SPEC, "proofs")
    t0 = time.time()
    p = subprocess.run(["timeout", str(m.get("timeout", 900)), "tlapm", "--threads", "6", "--cleanfp", m["module"] + ".tla"],
                       cwd=d, stdout=subprocess.PIPE, stderr=subprocess.STDOUT, text=True)
    out = p.stdout
    mm = re.search(r"All (\d+) obligations? proved", out)
    ok = mm is not None and "[ERROR]" not in out
    n = int(mm.group(1)) if mm else 0
    st = {"name": m["name"], "generated": n, "distinct": n, "depth": 0, "obligations_proved": n, "wall_s": round(time.time() - t0, 1)}
    why = "" if ok else ("timeout" if p.returncode == 124 else "TLAPS left obligations unproved")
    return {"ok": ok, "why": why, "summary": st, "tail": out[-3000:], "raw": out}


def run_model(m, wd):
    if m.get("kind") == "tlaps":
        return run_proofs(m, wd)
    rc, out, wall = runner.run_tlc(m["module"], m["cfg"], wd, workers=m.get("workers", 8),
                                  timeout=m.get("timeout", 900), extra=["-coverage", "1"] if m.get("coverage") else None,
                                  heap=m.get("heap", "8g"))
    st = runner.tlc_stats(out)
    st["name"] = m["name"]
    st["wall_s"] = round(wall, 1)
    ok = "Model checking completed. No error has been found." in out
    why = "" if ok else ("timeout" if rc == 124 else "TLC reported an error")
    return {"ok": ok, "why": why, "summary": st, "tail": out[-3000:], "raw": out}
