"""TLC model-checking stages (M): bounded instances of the specification."""
import os
import re

import runner


def for_property(pid, tier):
    return [m for m in MODELS if pid in m["props"] and tier in m["tiers"]]


MODELS = []


def run_model(m, wd):
    rc, out, wall = runner.run_tlc(m["module"], m["cfg"], wd, workers=m.get("workers", 8),
                                  timeout=m.get("timeout", 900), extra=["-coverage", "1"] if m.get("coverage") else None,
                                  heap=m.get("heap", "8g"))
    st = runner.tlc_stats(out)
    st["name"] = m["name"]
    st["wall_s"] = round(wall, 1)
    ok = "Model checking completed. No error has been found." in out
    why = "" if ok else ("timeout" if rc == 124 else "TLC reported an error")
    return {"ok": ok, "why": why, "summary": st, "tail": out[-3000:], "raw": out}
