"""C11: header chains and candidate headers for the validation crate."""
import random

LIMIT = {"mainnet": (29, 0x00ffff), "testnet": (29, 0x00ffff), "regtest": (32, 0x7fffff)}
T = 1209600


def cand(dt, e=None, m=None, nowdt=100000, pow=None, case="", accept=False):
    d = {"fn": "hdr_candidate", "dt": dt, "nowdt": nowdt, "case": case, "accept": accept}
    if e is not None:
        d["e"], d["m"] = e, m
    if pow:
        d["pow"] = pow
    return d


def time_probes(rng, net, pow=None):
    """Candidates around the median-time-past and the +2h rule."""
    out = []
    for dt in [-7000, -3000, -1800, -601, -600, -599, -1, 0, 1, 599, 600, 601, 1199, 1200, 1201, 1800, 5000]:
        out.append(cand(dt, nowdt=rng.choice([100000, dt - 7200, dt - 7199, dt - 7201, dt, 0, dt - 20000]), pow=pow, case="time"))
    return out


def bits_probes(rng, net, pow=None):
    e, m = LIMIT[net]
    out = []
    for (ee, mm) in [(e, m), (e, m - 1), (e, m + 1 if m < 0x7fffff else m), (e + 1, m), (e - 1, m), (e - 1, m << 8 if m << 8 < 0x800000 else m),
                     (e, 0x800000), (3, 1), (1, 0x7f0000), (0, 0), (28, 0x7fff00), (27, 0x123456), (34, 1)]:
        out.append(cand(rng.choice([600, 1300]), ee, mm & 0xffffff, pow=pow, case="bits"))
    return out


def regtest_chain(rng, n):
    inp = [{"fn": "hdr_reset", "net": "regtest"}]
    for i in range(n):
        # irregular spacing so that the median differs from the parent's time
        inp.append(cand(rng.choice([600, 600, 1, 50, 1300, 4000, 600]), pow="valid", case="extend", accept=True))
        if rng.random() < 0.35:
            inp += rng.sample(time_probes(rng, "regtest", pow="valid"), 5)
        if rng.random() < 0.2:
            inp += rng.sample(bits_probes(rng, "regtest", pow="valid"), 4)
        if rng.random() < 0.15:
            inp.append(cand(600, pow="invalid", case="badpow"))
    return inp


def boundary_chain(rng, net, dt, base_bits=None, periods=1):
    """A synthetic chain up to (and across) retarget boundaries."""
    e, m = base_bits if base_bits else LIMIT[net]
    inp = [{"fn": "hdr_reset", "net": net, "e": e, "m": m}]
    for p in range(periods):
        total = 2016 if p else 2015         # genesis is height 0
        inp.append({"fn": "hdr_bulk", "n": total - 4, "dt": dt, "e": e, "m": m})
        for k in range(4 + 3):
            # the last few headers before the boundary, the boundary and a few after, one by one
            extra = rng.choice([dt, dt, 1, 7000, 1201, 1199])
            inp += rng.sample(time_probes(rng, net), 3)
            inp.append(cand(extra, case="boundary-required"))
            inp.append(cand(1201, case="boundary-20min"))
            inp.append(cand(1200, case="boundary-20min-edge"))
            if net != "mainnet" and rng.random() < 0.6:
                # a minimum-difficulty block (allowed after 20 minutes) followed by quick ones: walk-back
                le, lm = LIMIT[net]
                inp.append({"fn": "hdr_append", "dt": 1300, "e": le, "m": lm})
                inp.append(cand(10, case="walkback"))
                inp.append({"fn": "hdr_append", "dt": 1500, "e": le, "m": lm})
                inp.append(cand(300, case="walkback2"))
                inp.append(cand(1300, case="walkback-again-min"))
            else:
                inp.append({"fn": "hdr_append", "dt": extra})
        # continue the next period with whatever bits the chain now requires: the harness keeps prev bits
    return inp


def real_chain(n, perturb):
    return [{"fn": "hdr_reset", "net": "mainnet", "real": True}, {"fn": "hdr_real", "n": n, "perturb": perturb}]


def inputs(tier, seed):
    rng = random.Random(seed)
    inp = []
    for i in range(3 if tier == "quick" else 20):
        inp += regtest_chain(rng, 25 if tier == "quick" else 60)
    specs = [("mainnet", 600, None), ("mainnet", 100, (27, 0x123456)), ("mainnet", 3000, (27, 0x7fffff)),
             ("testnet", 600, (28, 0x0fffff)), ("testnet", 60, (27, 0x00ffff)), ("testnet", 2500, (28, 0x7fffff)),
             ("regtest", 600, None)]
    if tier == "quick":
        specs = [specs[1], specs[3], specs[5], specs[6]]
    for (net, dt, bb) in specs:
        inp += boundary_chain(rng, net, dt, bb, periods=1 if tier == "quick" else 2)
    inp += real_chain(400 if tier == "quick" else 2633, perturb=True)
    return inp
