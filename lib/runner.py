"""Build/run helpers: harness build, scenario execution, TLC runs, report parsing."""
import json
import os
import re
import shutil
import subprocess
import time

VERIF = os.path.dirname(os.path.dirname(os.path.abspath(__file__)))   # /verif, or a snapshot of it
SPEC = os.path.join(VERIF, "spec")
HARNESS_DIR = os.path.join(VERIF, "harness")
HARNESS_BIN = os.path.join(HARNESS_DIR, "target", "debug", "verif-harness")
WORK = os.path.join(VERIF, "work")
REPO = os.environ.get("VERIF_REPO", "/repo")      # the registered commands always use /repo


class ToolError(Exception):
    pass


def sh(cmd, cwd=None, env=None, timeout=None, check=True):
    e = dict(os.environ)
    if env:
        e.update(env)
    p = subprocess.run(cmd, cwd=cwd, env=e, stdout=subprocess.PIPE, stderr=subprocess.STDOUT, text=True,
                       timeout=timeout)
    if check and p.returncode != 0:
        raise ToolError(f"command failed ({p.returncode}): {cmd}\n{p.stdout[-4000:]}")
    return p


_built = False


def build_harness():
    """Rebuilds the harness from /repo's current working tree (incremental)."""
    global _built
    if _built:
        return
    lock = os.path.join(HARNESS_DIR, "Cargo.lock")
    if not os.path.exists(lock):
        shutil.copy(os.path.join(REPO, "Cargo.lock"), lock)
    if REPO != "/repo":
        # a background run against a frozen copy of the repository (never the registered commands)
        mf = os.path.join(HARNESS_DIR, "Cargo.toml")
        txt = open(mf).read()
        if '"/repo/' in txt:
            open(mf, "w").write(txt.replace('"/repo/', '"' + REPO + '/'))
    t0 = time.time()
    p = sh(["cargo", "build", "--offline"], cwd=HARNESS_DIR, env={"CARGO_NET_OFFLINE": "true"}, check=False,
           timeout=3600)
    if p.returncode != 0:
        raise ToolError("harness build failed:\n" + p.stdout[-6000:])
    _built = True
    return time.time() - t0


def workdir(name):
    d = os.path.join(WORK, name)
    shutil.rmtree(d, ignore_errors=True)
    os.makedirs(d, exist_ok=True)
    return d


def run_scenarios(scenarios, wd, name="trace"):
    """Executes scenarios against the real canister; returns the trace path."""
    build_harness()
    sp = os.path.join(wd, name + ".scenarios.ndjson")
    tp = os.path.join(wd, name + ".ndjson")
    with open(sp, "w") as f:
        for s in scenarios:
            f.write(json.dumps(s, separators=(",", ":")) + "\n")
    p = subprocess.run([HARNESS_BIN, "run", sp, tp], stdout=subprocess.DEVNULL, stderr=subprocess.PIPE, text=True,
                       timeout=3600)
    if p.returncode != 0:
        raise ToolError("harness run failed:\n" + p.stderr[-4000:])
    return tp


def _unescape(s):
    # TLC prints a TLA+ string literal: "@@{\"kind\":...}"
    s = s.strip()
    if s.startswith('"') and s.endswith('"'):
        s = s[1:-1]
    return s.replace('\\"', '"').replace("\\\\", "\\")


def run_tlc(module, cfg, wd, env=None, workers=1, timeout=1800, extra=None, heap="6g"):
    meta = os.path.join(wd, "meta-" + module)
    shutil.rmtree(meta, ignore_errors=True)
    e = {"JAVA_TOOL_OPTIONS": f"-Xss1g -Xmx{heap} -Dtlc2.tool.queue.IStateQueue=StateDeque"}
    if env:
        e.update(env)
    cmd = ["timeout", str(timeout), "tlc", "-workers", str(workers), "-metadir", meta, "-cleanup",
           "-noGenerateSpecTE", "-config", cfg, module + ".tla"]
    if extra:
        cmd += extra
    t0 = time.time()
    p = sh(cmd, cwd=SPEC, env=e, check=False, timeout=timeout + 60)
    out = p.stdout
    shutil.rmtree(meta, ignore_errors=True)
    return p.returncode, out, time.time() - t0


def parse_reports(out):
    reps = []
    for line in out.splitlines():
        if line.startswith('"@@'):
            try:
                reps.append(json.loads(_unescape(line)[2:]))
            except Exception as ex:  # noqa
                reps.append({"kind": "TOOLERROR", "tag": "unparsable report", "detail": line[:300]})
    return reps


def tlc_stats(out):
    st = {}
    m = re.search(r"(\d+) states generated, (\d+) distinct states found", out)
    if m:
        st["generated"] = int(m.group(1))
        st["distinct"] = int(m.group(2))
    m = re.search(r"depth of the complete state graph search is (\d+)", out)
    if m:
        st["depth"] = int(m.group(1))
    return st


def validate_trace(trace_path, wd, timeout=1800):
    """Runs TraceCanister on the trace. Returns dict(reports, accepted, stats, wall, raw)."""
    rc, out, wall = run_tlc("TraceCanister", "TraceCanister.cfg", wd, env={"TRACE": trace_path}, timeout=timeout)
    reps = parse_reports(out)
    ok = "Model checking completed. No error has been found." in out
    if not ok:
        # an evaluation error in the trace spec, a violated invariant, or the postcondition
        reps.append({"kind": "TLCERROR", "tag": "tlc", "detail": out[-3000:]})
    return {"reports": reps, "accepted": ok, "stats": tlc_stats(out), "wall": wall, "raw": out, "rc": rc}


def load_trace(path):
    with open(path) as f:
        return [json.loads(x) for x in f if x.strip()]
