"""Build/run helpers: harness build, scenario execution, TLC runs, report parsing."""
import json
import os
import re
import shutil
import subprocess
import time

VERIF = os.path.dirname(os.path.dirname(os.path.abspath(__file__)))   # /verif, or a snapshot of it
SPEC = os.path.join(VERIF, "spec")
HARNESS_DIR = os.path.join(VERIF, "harness")
HARNESS_BIN = os.path.join(HARNESS_DIR, "target", "debug", "verif-harness")
WORK = os.path.join(VERIF, "work")
REPO = os.environ.get("VERIF_REPO", "/repo")      # the registered commands always use /repo


class ToolError(Exception):
    pass


def sh(cmd, cwd=None, env=None, timeout=None, check=True):
    e = dict(os.environ)
    if env:
        e.update(env)
    p = subprocess.run(cmd, cwd=cwd, env=e, stdout=subprocess.PIPE, stderr=subprocess.STDOUT, text=True,
                       timeout=timeout)
    if check and p.returncode != 0:
        raise ToolError(f"command failed ({p.returncode}): {cmd}\n{p.stdout[-4000:]}")
    return p


_built = False


def build_harness():
    """Rebuilds the harness from /repo's current working tree (incremental)."""
    global _built
    if _built:
        return
    lock = os.path.join(HARNESS_DIR, "Cargo.lock")
    if not os.path.exists(lock):
        shutil.copy(os.path.join(REPO, "Cargo.lock"), lock)
    if REPO != "/repo":
        # a background run against a frozen copy of the repository (never the registered commands)
        mf = os.path.join(HARNESS_DIR, "Cargo.toml")
        txt = open(mf).read()
        if '"/repo/' in txt:
            open(mf, "w").write(txt.replace('"/repo/', '"' + REPO + '/'))
    t0 = time.time()
    p = sh(["cargo", "build", "--offline"], cwd=HARNESS_DIR, env={"CARGO_NET_OFFLINE": "true"}, check=False,
           timeout=3600)
    if p.returncode != 0:
        raise ToolError("harness build failed:\n" + p.stdout[-6000:])
    _built = True
    return time.time() - t0


def workdir(name):
    d = os.path.join(WORK, name)
    shutil.rmtree(d, ignore_errors=True)
    os.makedirs(d, exist_ok=True)
    return d


PAR = int(os.environ.get("VERIF_PAR", "8"))       # parallel harness / TLC processes for large scenario sets


def harness_env():
    """Every scenario re-initialises the canister, whose stable-memory layout allocates and frees about
    100 MB; glibc would hand that back to the kernel and fault it in again each time (0.2 s per scenario).
    Keeping it on the heap makes a scenario cost milliseconds."""
    e = dict(os.environ)
    e.update({"MALLOC_MMAP_MAX_": "0", "MALLOC_TRIM_THRESHOLD_": "17179869184", "MALLOC_TOP_PAD_": "268435456"})
    return e


def _run_harness(sp, tp):
    p = subprocess.run([HARNESS_BIN, "run", sp, tp], stdout=subprocess.DEVNULL, stderr=subprocess.PIPE, text=True,
                       timeout=7200, env=harness_env())
    if p.returncode != 0:
        raise ToolError("harness run failed:\n" + p.stderr[-4000:])


def run_scenarios(scenarios, wd, name="trace"):
    """Executes scenarios against the real canister; returns the trace path.  Scenarios are independent
    (each starts with `init`), so large sets are executed by several harness processes and the traces are
    concatenated in scenario order."""
    build_harness()
    sp = os.path.join(wd, name + ".scenarios.ndjson")
    tp = os.path.join(wd, name + ".ndjson")
    with open(sp, "w") as f:
        for s in scenarios:
            f.write(json.dumps(s, separators=(",", ":")) + "\n")
    k = min(PAR, len(scenarios) // 24)
    if k <= 1:
        _run_harness(sp, tp)
        return tp
    from concurrent.futures import ThreadPoolExecutor
    size = (len(scenarios) + k - 1) // k
    parts = []
    for i in range(k):
        chunk = scenarios[i * size:(i + 1) * size]
        if not chunk:
            continue
        psp = os.path.join(wd, f"{name}.part{i}.scenarios.ndjson")
        ptp = os.path.join(wd, f"{name}.part{i}.ndjson")
        with open(psp, "w") as f:
            for s in chunk:
                f.write(json.dumps(s, separators=(",", ":")) + "\n")
        parts.append((psp, ptp))
    with ThreadPoolExecutor(max_workers=len(parts)) as ex:
        for fut in [ex.submit(_run_harness, a, b) for a, b in parts]:
            fut.result()
    with open(tp, "wb") as out:
        for psp, ptp in parts:
            with open(ptp, "rb") as f:
                shutil.copyfileobj(f, out)
            os.remove(ptp)
            os.remove(psp)
    return tp


def _unescape(s):
    # TLC prints a TLA+ string literal: "@@{\"kind\":...}"
    s = s.strip()
    if s.startswith('"') and s.endswith('"'):
        s = s[1:-1]
    return s.replace('\\"', '"').replace("\\\\", "\\")


def run_tlc(module, cfg, wd, env=None, workers=1, timeout=1800, extra=None, heap="6g", tag=""):
    meta = os.path.join(wd, "meta-" + module + tag)
    shutil.rmtree(meta, ignore_errors=True)
    e = {"JAVA_TOOL_OPTIONS": f"-Xss1g -Xmx{heap} -Dtlc2.tool.queue.IStateQueue=StateDeque"}
    if env:
        e.update(env)
    cmd = ["timeout", str(timeout), "tlc", "-workers", str(workers), "-metadir", meta, "-cleanup",
           "-noGenerateSpecTE", "-config", cfg, module + ".tla"]
    if extra:
        cmd += extra
    t0 = time.time()
    p = sh(cmd, cwd=SPEC, env=e, check=False, timeout=timeout + 60)
    out = p.stdout
    shutil.rmtree(meta, ignore_errors=True)
    return p.returncode, out, time.time() - t0


def parse_reports(out):
    reps = []
    for line in out.splitlines():
        if line.startswith('"@@'):
            try:
                reps.append(json.loads(_unescape(line)[2:]))
            except Exception as ex:  # noqa
                reps.append({"kind": "TOOLERROR", "tag": "unparsable report", "detail": line[:300]})
    return reps


def tlc_stats(out):
    st = {}
    m = re.search(r"(\d+) states generated, (\d+) distinct states found", out)
    if m:
        st["generated"] = int(m.group(1))
        st["distinct"] = int(m.group(2))
    m = re.search(r"depth of the complete state graph search is (\d+)", out)
    if m:
        st["depth"] = int(m.group(1))
    return st


def _validate_one(trace_path, wd, timeout, tag=""):
    rc, out, wall = run_tlc("TraceCanister", "TraceCanister.cfg", wd, env={"TRACE": trace_path}, timeout=timeout, tag=tag)
    reps = parse_reports(out)
    ok = "Model checking completed. No error has been found." in out
    if not ok:
        # an evaluation error in the trace spec, a violated invariant, or the postcondition
        reps.append({"kind": "TLCERROR", "tag": "tlc", "detail": out[-3000:]})
    return {"reports": reps, "accepted": ok, "stats": tlc_stats(out), "wall": wall, "raw": out, "rc": rc}


def validate_trace(trace_path, wd, timeout=1800):
    """Runs TraceCanister on the trace. Returns dict(reports, accepted, stats, wall, raw).  A long trace is cut
    at scenario boundaries (`universe` records) and the pieces are validated by parallel TLC processes; the
    line numbers of their reports are shifted back to lines of the whole trace."""
    with open(trace_path) as f:
        lines = f.readlines()
    starts = [i for i, ln in enumerate(lines) if '"ev":"universe"' in ln]
    # cost of a scenario for TLC: its records, weighted by the size of its universe (every step of a history
    # of several hundred blocks costs as much as hundreds of steps of a small one)
    bounds = starts + [len(lines)]
    costs = []
    for a, b in zip(bounds, bounds[1:]):
        weight = 1 + len(lines[a]) / 20000.0
        costs.append((b - a) * weight)
    total = sum(costs)
    k = min(PAR, int(total // 15000), len(starts))
    if k <= 1:
        return _validate_one(trace_path, wd, timeout)
    from concurrent.futures import ThreadPoolExecutor
    target = total / k
    cuts = [0]
    acc = 0.0
    for st, c in zip(starts, costs):
        if acc >= target and len(cuts) < k and st > cuts[-1]:
            cuts.append(st)
            acc = 0.0
        acc += c
    cuts.append(len(lines))
    pieces = []
    for i in range(len(cuts) - 1):
        pp = trace_path + f".piece{i}"
        with open(pp, "w") as f:
            f.writelines(lines[cuts[i]:cuts[i + 1]])
        pieces.append((pp, cuts[i]))
    t0 = time.time()
    with ThreadPoolExecutor(max_workers=len(pieces)) as ex:
        results = [fut.result() for fut in [ex.submit(_validate_one, pp, wd, timeout, f"-p{i}") for i, (pp, _o) in enumerate(pieces)]]
    reports, ok, raw = [], True, ""
    st = {"generated": 0, "distinct": 0, "depth": 0}
    for (pp, off), r in zip(pieces, results):
        for rep in r["reports"]:
            if isinstance(rep.get("l"), int):
                rep["l"] += off
            reports.append(rep)
        ok = ok and r["accepted"]
        raw += r["raw"][-2000:]
        for key in ("generated", "distinct"):
            st[key] += r["stats"].get(key, 0)
        st["depth"] += r["stats"].get("depth", 0)
        os.remove(pp)
    return {"reports": reports, "accepted": ok, "stats": st, "wall": time.time() - t0, "raw": raw, "rc": 0 if ok else 1}


def load_trace(path):
    with open(path) as f:
        return [json.loads(x) for x in f if x.strip()]
