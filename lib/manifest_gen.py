"""Regenerates /verif/MANIFEST.json from the table below."""
import json

LEVEL_TEXT = {
 "C01": "TLC validates every recorded get_utxos answer of the real canister (all pages followed) against the genesis-replay ledger of Universe.tla on random and directed histories (forks, reorgs, a transaction mined on two forks, same-block spends, OP_RETURN / non-standard / oversized scripts, all five address kinds on the three networks, prefix address pairs); sampling of histories, exhaustive comparison of every answer within them; MC_Ledger: TLC checks on every reachable state of bounded histories with transaction content (forks, same-block spends, re-mined transactions, ingestion one operation per step) that the code's mechanisms (stable set + in-progress delta + outpoints cache + per-block address deltas, Mech.tla) give exactly the reference answers",
 "C02": "MC_Tree: TLC explores every fork tree / arrival order / difficulty assignment up to the bound and checks that the served chain (mechanism) is the declarative heaviest chain; trace validation binds the code: tip, height, timestamp, difficulty of get_blockchain_info and the tips of get_utxos / get_balance / get_block_headers / fee percentiles are compared with the specification after every message; every fork tree of <= 3 blocks with difficulties {1,2,3} and <= 4 blocks with {1,3} is replayed into the real code in every arrival order (scen.enum_trees), plus TLC-simulated behaviours of MC_Tree (committed corpus)",
 "C03": "MC_Tree: exhaustive on bounded trees: finality as an action property (stable chain only grows by the old anchor along a path of the tree, blocks leave the tree only on advance), mechanism = rule as worded (mainnet), new anchor on served chain; trace validation compares stable height, header store and tree after every heartbeat, so an early, late or wrong advance of the code is a mismatch; directed scenarios at the real adaptive depth bound (many sibling tips, a 420-block chain, the three-way tie of 605 blocks, two forks of 350 / 349 blocks beyond the bound plus a heavy block), randomized stability histories and TLC-simulated behaviours are replayed into the real code",
 "C04": "MC_Tree checks the cut is defined and, on fork-free trees, at height H-c+1; trace validation compares get_utxos(min_confirmations=c) for c = 0..len+2 with the ledger as of the specification's CutBlock on forked histories; exhaustive replay of small fork trees (scen.enum_trees) incl. heavy-short vs light-long branches; MC_Ledger (thorough) checks the mechanisms against the reference for every c",
 "C05": "TLC checks on recorded executions both the relation between the two answers of the code (balance vs sum of all pages of get_utxos for the same address, filter and state; same error classes) and each of them against the reference ledger; query and update variants alternate; MC_Ledger: BalanceAgrees / UtxosAgree on every reachable state of bounded histories incl. every pause position",
 "C06": "trace validation of paginated walks interleaved with block arrivals, fork growth, stabilisation, upgrades: the specification fixes the expected set at the first page (ledger as of the named tip) and every later page must be a fresh, ordered, size-bounded part of it naming the same tip, or UnknownTipBlockHash iff the tip left the tree; arbitrary page blobs must give an explicit error or an answer",
 "C07": "MC_Tree checks that stable chain + best chain is linked with exact heights in every reachable state including paused ingestion; trace validation compares every get_block_headers answer (many (start,end) pairs, at every pause point of sliced ingestions, after upgrades) with the specification and checks 80-byte size and prev-hash linkage on the real bytes; chains of more than 100 unstable blocks and ranges across a stable boundary beyond 100 exercise the start + 99 cap",
 "C08": "trace validation: the ingestion position after every budgeted heartbeat is compared with the specification's operation model (one op per input / output), every query answer at every pause point is compared with the reference semantics (which ignores the in-progress block), no request may be issued while ingesting, and the post-state after completion must equal the specification's (schedule independent) state; MC_Ledger: the mechanisms equal the reference at every pause position of every bounded history (one ingestion operation per step)",
 "C09": "trace validation with upgrades inserted at every phase (response stored, partial pages received, ingestion paused, call in flight): post_upgrade state, configuration and all query answers must equal the specification's, in which Upgrade only resets the fetch state; subsequent behaviour is validated against the same specification as runs without upgrades",
 "C10": "MC_Tree enumerates every delivery (new, duplicate, orphan, stale-parent) on bounded trees; trace validation delivers valid blocks mixed with every defect class (truncated, garbage, empty, bad PoW, bad merkle root, duplicated transactions, no coinbase, no transactions, wrong bits, stale / future timestamps) and garbage / invalid / unconnected announced headers, and compares tree, counters and every other projected variable",
 "C13": "trace validation with overlapping heartbeats through the get_successors yield point: every issued request (initial with anchor + preorder of the tree, follow-up index), the single-flight flag, the stored (partial) response and its byte-exact reassembly, reject handling and counters are compared with the specification after every step; MC_Sync: TLC explores every interleaving of 2 (thorough 3) overlapping heartbeats with complete / partial / follow-up / reject replies, garbage items, upgrades and syncing switches on a small universe: at most one outstanding request, flag iff outstanding, follow-ups numbered, no duplicates, and under fairness every valid block is eventually applied",
 "C14": "MC_Tree checks the announced-header bookkeeping invariants; trace validation checks refusal/answer of every data endpoint against the specification's gate (api flag, requested network, max announced height vs tip + 2) under flag changes, forks and stabilisation; refusals must leave the projected state unchanged",
 "C15": "trace validation compares every fee percentile answer and the cache (tip, 101 values) with the specification's nearest-rank percentiles over the fee rates (real vsize from the harness) of the best chain's unstable blocks, eager and lazy, across reorgs and upgrades; a scenario with 13,600 fee-paying transactions exercises the 10,000 cut inside a block (thorough: the cut at ten other positions)",
 "C20": "trace validation compares after every message the hook snapshot (block bodies in stable memory, tx-out reference counts, per-block per-address added / removed outpoints, cached tip depths, announced-header indexes) with what the specification derives declaratively from the tree; MC_Ledger: CacheExact (cache domain and reference counts = what the tree's blocks refer to) on every reachable state of bounded histories; directed shared-spend / fork-discard scenarios",
 "C11": "HeaderRules.tla states the consensus rules (median-time-past, +2h, compact targets as BigNat values, 2016-block retarget with 4x clamp, BIP94 first-block base on testnet4, 20-minute rule and walk-back, no retargeting on regtest); TLC validates the implementation's required target (hook), timestamp verdict and full validate_header verdict on synthetic chains around retarget boundaries on the three networks, mined regtest candidates with every field perturbed, and the 2633 real mainnet headers shipped with the repository (each also perturbed); BigNat arithmetic is model-checked against native arithmetic; MC_Header: TLC explores every honest chain of a scaled-down instance (retarget interval 4) on the three networks: required targets below the limit and canonical, mainnet steps clamped to 4x, regtest fixed, walk-back = its declarative reading, median-time-past monotone",
 "C12": "MC_Merkle: TLC proves on a collision-free hash abstraction, for every list over n <= 6 (thorough 7) transactions up to length 8 (9), that a list with the original merkle root that differs from the original repeats a transaction, and prints every such mutation; each is replayed on real blocks (real double-SHA256 root preserved, DuplicateTransactions required) together with the higher-level members of the family up to n = 14, blocks whose header honestly commits to a list with a repeated transaction, reorderings, removals, swaps, repeats and the unmutated block; TLC validates every verdict, also end-to-end through state::insert_block",
 "C16": "TLC validates the cycles accepted by every recorded call (mock cycles balance) against Charged / Required of Canister.tla under random small fee tables (zero, cap binding), instruction counts set through the performance-counter hook, cycles attached around the maximum, request-level errors and gate refusals; the client constants of ic-cdk-bitcoin-canister are compared with the default fee tables of the three networks as BigNat values; TLAPS proves for every fee table whose maxima cover the base fees, every instruction count and payload length: charged <= required, request-level errors charge exactly the base / flat fee, and a call that carried enough is never charged more than it carried (spec/proofs/FeesProofs.tla, 25 obligations, about the very operators the trace specification uses)",
 "C17": "MC_Watchdog: TLC explores all rounds over a 6-value grid for 4 providers from all states and checks latest-round-only, order independence and the decision as worded; the real watchdog is driven through its fetch path with ic_http mocks (all multisets on the grid for the five targets, failures of ten kinds, consecutive rounds so that stale heights would show) and TLC validates every decision; MC_System composes the decision with the canister's api flag as the tick really runs (four awaited steps, operator interventions, failed calls, overlapping ticks): only decisions of stored rounds are written, and under fairness a canister that stays behind is eventually disabled, one in the band eventually enabled; TLAPS proves the decision as worded for every number of explorers and every height (spec/proofs/WatchdogProofs.tla, 17 obligations)",
 "C18": "Transform.tla gives the result as a function of endpoint kind and response class; the harness calls every endpoint's transform (and the exported query) on constructed responses of every class (heights up to 2^64-1, wrong types, missing members, truncation, invalid UTF-8, arbitrary statuses and headers, whitespace / member-order / extra-member variants, long non-JSON pages with multi-byte characters at every offset) and on arbitrary byte strings; TLC validates status, absence of headers, canonical body",
 "C19": "TLC validates every recorded send_transaction call (result, counter, forwarded payload unchanged, cycles) against SendTx of Canister.tla; payloads are serialisations of random transactions (legacy, segwit, zero inputs / outputs, unusual shapes: null / zero / maximal outpoints, duplicate inputs, extreme values, versions, lock times, script sizes), truncated, extended, prefixed, bit-flipped, garbage, empty, classified by an independent BIP144 parser in the harness; all access flags and requested networks",
}

NOTE = ("native Rust harness (no wasm / PocketIC): message atomicity and trap rollback are assumed from the IC; TLC and the "
        "TLA+ specification /verif/spec are trusted; concretisation (abstract ids -> real regtest blocks) is part of the "
        "harness; properties are decided within the bounds and samples recorded in the evidence file")


def main():
    props = [json.loads(l) for l in open('/verif/properties.jsonl')]
    claimed = sorted(LEVEL_TEXT)
    m = {
        "version": 1,
        "setup_cmd": "cd /verif/harness && cp /repo/Cargo.lock Cargo.lock && cargo build --offline 2>&1 | tail -3",
        "hooks": {
            "guard": "cargo feature `verif` (crates ic-btc-canister, ic-btc-types, ic-btc-validation, watchdog)",
            "enable": "the harness crate /verif/harness depends on /repo's crates by path with features = [\"verif\"] (implies mock_time and ic-btc-types/mock_difficulty); every check runs `cargo build --offline` in /verif/harness first, which rebuilds from /repo's working tree",
            "baseline_off_cmd": "cd /repo && cargo test --workspace --no-fail-fast --offline",
            "source_commits": ["98a8ba3f1464f66586ac0863c9bd23fcc3be3798", "b438941b60a290c22b53dc7b336042a4b82b156d",
                               "90e7dea1adc8d25086918fd2257b593144132f05", "1f5d836b2d2ce03760738b0473a5f9c95921005c"],
            "add_only": True,
        },
        "engines": [
            {"name": "tlc-trace-validation", "path": "/verif/spec/TraceCanister.tla", "serves_properties": [p for p in claimed if p not in ("C11", "C12", "C17", "C18")],
             "kind_free_text": "TLC checks ndjson traces recorded from the real canister (harness `run`) against Canister.tla"},
            {"name": "tlc-model-checking", "path": "/verif/spec/MC_Tree.tla", "serves_properties": ["C01", "C02", "C03", "C04", "C05", "C07", "C08", "C10", "C11", "C12", "C13", "C14", "C16", "C17", "C20"],
             "kind_free_text": "TLC exhaustive exploration of bounded instances of the specification (MC_Tree, MC_Ledger, MC_Sync, MC_Header, MC_System, MC_Merkle, MC_Watchdog, MC_BigNat); TLAPS proofs of unbounded statements about Fees.tla and Watchdog.tla (spec/proofs)"},
            {"name": "tlc-decision-validation", "path": "/verif/spec/TraceDecision.tla", "serves_properties": ["C11", "C12", "C16", "C17", "C18"],
             "kind_free_text": "TLC checks recorded calls of the implementation's decision functions against TLA+ operators (TraceDecision.tla, TraceHeaders.tla)"},
            {"name": "harness", "path": "/verif/harness", "serves_properties": claimed,
             "kind_free_text": "Rust: builds real blocks / transactions / addresses from abstract scenarios, drives the canister natively through its public entry points, projects the state back to abstract ids"},
        ],
        "checks": [],
        "notes": "See DESIGN.md. known_findings.json lists genuine defects: six repaired by `fix:` commits in /repo, four recorded; /verif/seeded holds the seeded changes used to test the checks.",
        "not_applicable": [],
    }
    for p in props:
        pid = p["id"]
        if pid in LEVEL_TEXT:
            m["checks"].append({
                "property_id": pid,
                "quick_cmd": f"bin/check {pid} --tier quick",
                "thorough_cmd": f"bin/check {pid} --tier thorough",
                "evidence_file": f"/verif/evidence/{pid}.json",
                "replay_cmd_template": f"bin/check {pid} --replay {{path}}",
                "engine": "tlc-decision-validation" if pid in ("C11", "C12", "C17", "C18") else "tlc-trace-validation",
                "level_claimed": {"category": "model_checking", "text": LEVEL_TEXT[pid], "design_ref": f"DESIGN.md section 5, {pid}"},
                "level_note": NOTE,
                "technique": TECH.get(pid, "TLA+ specification: TLC trace validation of recorded executions of the real code + TLC model checking of bounded instances"),
            })
        else:
            m["not_applicable"].append({"property_id": pid, "reason": "check not built yet (work in progress; see DESIGN.md section 8 for the order of work)"})
    json.dump(m, open('/verif/MANIFEST.json', 'w'), indent=1)


TECH = {}

if __name__ == "__main__":
    main()
